#!/usr/bin/env python3
"""Lists the slowest harnesses of each evidence file (development helper)."""
import json, glob, sys
for f in sorted(glob.glob('/verif/evidence/C*.json')):
    e = json.load(open(f))
    s = sorted(e['coverage']['samples'], key=lambda x: -(x.get('kani_s') or 0))
    tot = sum((x.get('kani_s') or 0) for x in s)
    print(f"{e['property_id']} tier={e['tier']} wall={e['wall_s']} harnesses={len(s)} cpu={tot:.0f}s  slowest: " + ", ".join(f"{x['harness'].split('::')[-1]}={x.get('kani_s') or 0:.0f}s" for x in s[:6]))
