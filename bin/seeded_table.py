#!/usr/bin/env python3
"""Builds /verif/seeded/README.md from the meta.json / check_*.log files of each seeded change."""
import json, os, glob, re
V = os.path.dirname(os.path.dirname(os.path.abspath(__file__)))
rows = []
np = os.path.join(V, 'seeded', 'NOTES.json')
notes = json.load(open(np)) if os.path.exists(np) else {}
for d in sorted(glob.glob(os.path.join(V, "seeded", "*", ""))):
    mp = os.path.join(d, "meta.json")
    if not os.path.exists(mp):
        continue
    m = json.load(open(mp))
    caught = []
    for lf in sorted(glob.glob(os.path.join(d, "check_*.log"))):
        prop = re.search(r"check_(\w+)\.log", lf).group(1)
        txt = open(lf, errors="replace").read()
        v = [l for l in txt.splitlines() if l.startswith("VIOLATION")]
        fc = re.findall(r"failed check: (.*?) in ", txt)
        rcm = m.get("checks_run", {}).get(prop, "")
        caught.append(f"{prop}: {'**caught**' if v else 'missed'} ({rcm}" + (f"; e.g. {fc[0][:90]}" if fc else "") + ")")
    rows.append((m.get("name"), m.get("breaks", ""), m.get("needs", ""), m.get("suite_with_change", ""), m.get("demo_with_change", "")[:70],
                 m.get("demo_without_change", "")[:50], "<br>".join(caught), m.get("change", ""), notes.get(m.get("name"), "")))
out = ["# Seeded changes\n",
       "Each change was written by a fresh sub-agent that saw only the text of one property and its own scratch worktree; it compiles, keeps the",
       "repository's test suite green and breaks the property.  `bin/seed_verify.sh` re-confirmed each one in a fresh worktree of /repo HEAD",
       "(suite with the change; demo with and without the change) and ran the listed checks with `VERIF_REPO=<worktree>`.\n",
       "| seed | breaks | needs | suite with change | demo with | demo without | checks | change | what was strengthened |", "|---|---|---|---|---|---|---|---|---|"]
for r in rows:
    out.append("| " + " | ".join(str(x).replace("|", "/") for x in r) + " |")
open(os.path.join(V, "seeded", "README.md"), "w").write("\n".join(out) + "\n")
print(len(rows), "seeds")
