#!/usr/bin/env python3
# writes /verif/seeded/<name>/meta.json from the outcome of seed_verify.sh (merging runs: a later
# run of another check against the same seed adds to checks_run)
import json,sys,os
name,suite,w,wo,res=sys.argv[1:6]
p=f"/verif/seeded/{name}/meta.json"
m=json.load(open(p)) if os.path.exists(p) else {}
m.update(json.load(open("/verif/seeded/INFO.json")).get(name,{}))
runs=m.get("checks_run",{})
runs.update({r.split(':')[0]:r.split(':')[1] for r in res.split()})
m.update({"name":name,"suite_with_change":suite,"demo_with_change":w,"demo_without_change":wo,
          "checks_run":runs,
          "how":"fresh worktree of /repo HEAD; git apply patch.diff (re-based onto HEAD); cargo test --workspace --offline; demo as epserde/tests/seed_demo.rs with and without the patch; VERIF_REPO=<worktree> bin/check <ID> --tier quick"})
json.dump(m,open(p,"w"),indent=1)
