#!/usr/bin/env python3
"""Regenerates /verif/MANIFEST.json from bin/plan.py (claimed properties) and
bin/manifest_text.py (level texts, not-applicable reasons)."""
import json, os, sys
V = os.path.dirname(os.path.dirname(os.path.abspath(__file__)))
sys.path.insert(0, os.path.join(V, "bin"))
import plan, manifest_text as T

ALL = [f"C{i:02d}" for i in range(1, 20)]
checks = []
for pid in ALL:
    if pid not in plan.PLAN or pid in T.NOT_APPLICABLE:
        continue
    t = T.TEXT[pid]
    checks.append({
        "property_id": pid,
        "quick_cmd": f"bin/check {pid} --tier quick",
        "thorough_cmd": f"bin/check {pid} --tier thorough",
        "evidence_file": f"/verif/evidence/{pid}.json",
        "replay_cmd_template": "bin/check replay {path}",
        "engine": "kani-cbmc",
        "level_claimed": {"category": "model_checking", "text": t["text"], "design_ref": t.get("ref", "DESIGN.md §5 " + pid)},
        "level_note": t["note"],
        "technique": t.get("technique", "bounded model checking of the real code: Kani 0.68 (MIR->GOTO) + CBMC 6.11 + CaDiCaL over symbolic inputs, unwinding assertions on; counterexamples replayed natively"),
    })
na = [{"property_id": p, "reason": T.NOT_APPLICABLE.get(p, "check not built yet (work in progress; see DESIGN.md)")}
      for p in ALL if p not in {c["property_id"] for c in checks}]
m = {
    "version": 1,
    "setup_cmd": "bin/check setup",
    "hooks": {
        "guard": "none",
        "enable": "no source hooks: the harness crate /verif/harness has a path dependency on /repo/epserde and uses only its public API",
        "baseline_off_cmd": "cd /repo && cargo test --workspace --no-fail-fast --offline",
        "source_commits": T.HOOK_COMMITS,
        "add_only": True,
    },
    "engines": [{
        "name": "kani-cbmc", "path": "/verif/bin/check",
        "serves_properties": [c["property_id"] for c in checks],
        "kind_free_text": "Kani 0.68.0 compiles /repo's working tree (epserde + the expanded output of epserde-derive) from MIR to GOTO; CBMC 6.11.0 unrolls to the harness bound with unwinding assertions and CaDiCaL decides every assertion for all values of the symbolic inputs; counterexamples are replayed natively (dev+release, Miri for memory classes) before a VIOLATION is printed",
    }],
    "checks": checks,
    "notes": T.NOTES,
    "not_applicable": na,
}
json.dump(m, open(os.path.join(V, "MANIFEST.json"), "w"), indent=1)
print("MANIFEST.json:", len(checks), "checks,", len(na), "not applicable")
