"""The listed instantiations (DESIGN.md §4): one row per `Case` in
harness/src/cases.rs.  `gen_inst.py` turns the table into harness/src/inst.rs
(committed) and plan.py turns it into per-property harness lists.

row = (case, type text, unit, unwind, cap, borrows, quick, note)
  unit    = largest alignment unit met while (de)serializing the type: start
            residues 0..unit-1 are the complete set (thorough); quick uses
            {0, 1, unit-1}
  unwind  = loop bound (max element/byte count compared + 2)
  cap     = sink capacity in bytes
  borrows = the ε-copy result can contain borrowed parts (C03 applies)
  shapes  = number of enumerated shapes (concrete sequence lengths / UTF-8 width
            classes, see the *_SHAPES tables in cases.rs); qshapes = subset used by quick
"""
P = lambda case, ty, unit=1, unwind=4, cap=64, borrows=False, quick=False, note="", shapes=1, qshapes=None, apairs=None: dict(
    case=case, ty=ty, unit=unit, unwind=max(unwind, unit + 2), cap=cap, borrows=borrows, quick=quick, note=note,
    shapes=shapes, qshapes=qshapes if qshapes is not None else list(range(shapes)),
    # C03 allocation check: partner shape with the same deep-copy skeleton for each shape
    apairs=apairs if apairs is not None else {s: (s + 1) % shapes for s in range(shapes)})

ROWS = [
    # primitives (never padded: written with write_all, read by value)
    P("U8", "u8", quick=True), P("U16", "u16"), P("U32", "u32", quick=True), P("U64", "u64"), P("U128", "u128", quick=True), P("Usize", "usize"),
    P("I8", "i8"), P("I16", "i16"), P("I32", "i32"), P("I64", "i64"), P("I128", "i128"), P("Isize", "isize", quick=True),
    P("F32", "f32", quick=True), P("F64", "f64"), P("Bool", "bool", quick=True), P("Char", "char", quick=True), P("Unit", "()", quick=True),
    P("Phantom", "PhantomData<u32>", quick=True),
    P("NzU8", "NonZeroU8"), P("NzU16", "NonZeroU16"), P("NzU32", "NonZeroU32", quick=True), P("NzU64", "NonZeroU64"), P("NzU128", "NonZeroU128"),
    P("NzUsize", "NonZeroUsize"), P("NzI8", "NonZeroI8"), P("NzI16", "NonZeroI16"), P("NzI32", "NonZeroI32"), P("NzI64", "NonZeroI64", quick=True),
    P("NzI128", "NonZeroI128"), P("NzIsize", "NonZeroIsize"),
    P("OptU32", "Option<u32>", quick=True), P("OptUnit", "Option<()>"), P("OptOptU8", "Option<Option<u8>>", quick=True),
    # sequences of zero-copy elements
    P("VecU8", "Vec<u8>", 1, 5, borrows=True), P("VecU16", "Vec<u16>", 2, 5, borrows=True), P("VecU32", "Vec<u32>", 4, 5, borrows=True, quick=True),
    P("VecU64", "Vec<u64>", 8, 4, borrows=True), P("VecU128", "Vec<u128>", 16, 4, cap=96, borrows=True, quick=True),
    P("VecUnit", "Vec<()>", 1, 4, borrows=True, quick=True, note="zero-sized elements"),
    P("VecArrU16x2", "Vec<[u16;2]>", 2, 6, borrows=True), P("VecTupU16", "Vec<(u16,u16)>", 2, 4, borrows=True),
    P("VecZeroS", "Vec<ZeroS>", 4, 4, borrows=True, quick=True), P("VecZTail", "Vec<ZTail>", 4, 4, borrows=True),
    P("VecZAl32", "Vec<ZAl32>", 32, 3, cap=128, borrows=True, quick=True, note="unit 32: padding of more than 16 bytes (seed C01b)"), P("VecZUnit", "Vec<ZUnit>", 1, 4, borrows=True),
    P("VecZE", "Vec<ZE>", 8, 3, borrows=True), P("VecRangeTo", "Vec<RangeTo<u32>>", 4, 4, borrows=True),
    P("VecRangeToArr3", "Vec<RangeTo<[u8;3]>>", 4, 6, borrows=True, quick=True, note="element size 3: not a power of two"),
    P("VecRangeToUnit", "Vec<RangeTo<()>>", 1, 4, borrows=True, note="zero-sized range"),
    P("BoxU32", "Box<[u32]>", 4, 5, borrows=True, quick=True),
    P("Str", "String", 1, 10, borrows=True, quick=True, note="<= 2 chars, every code point, 8 width-class shapes", shapes=8, qshapes=[0, 4, 6]),
    P("BoxStr", "Box<str>", 1, 10, borrows=True, shapes=8, qshapes=[5]),
    # deep sequences
    P("VecVecU16", "Vec<Vec<u16>>", 2, 4, borrows=True, quick=True, shapes=6, qshapes=[0, 1, 5], apairs={0: 0, 1: 2, 2: 3, 3: 1, 4: 5, 5: 4}), P("VecString", "Vec<String>", 1, 6, borrows=True, shapes=6, qshapes=[5], apairs={0: 0, 1: 2, 2: 3, 3: 1, 4: 5, 5: 4}),
    P("BoxString", "Box<[String]>", 1, 6, borrows=True, shapes=6, qshapes=[4], apairs={0: 0, 1: 2, 2: 3, 3: 1, 4: 5, 5: 4}), P("VecOptU8", "Vec<Option<u8>>", 1, 4),
    P("OptVecU16", "Option<Vec<u16>>", 2, 4, borrows=True, quick=True), P("OptVecU64", "Option<Vec<u64>>", 8, 3, borrows=True),
    # arrays
    P("ArrU32x0", "[u32;0]", 4, 3, borrows=True, quick=True, note="empty zero-copy array"), P("ArrU32x1", "[u32;1]", 4, 6, borrows=True),
    P("ArrU32x3", "[u32;3]", 4, 14, borrows=True, quick=True), P("ArrUnitx2", "[();2]", 1, 4, borrows=True, quick=True),
    P("ArrZeroSx2", "[ZeroS;2]", 4, 4, borrows=True), P("ArrArrU8", "[[u8;2];2]", 1, 6, borrows=True),
    P("ArrVecx2", "[Vec<u16>;2]", 2, 5, borrows=True, quick=True, shapes=3, qshapes=[1], note="deep array of heap-owning items"),
    P("ArrStringx0", "[String;0]", 1, 3), P("ArrStringx2", "[String;2]", 1, 6, borrows=True, shapes=4, qshapes=[2]),
    # tuples
    P("Tup1", "(u32,)", 4, 3, borrows=True), P("Tup2", "(u16,u16)", 2, 3, borrows=True, quick=True),
    P("Tup3", "(u64,u64,u64)", 8, 3, borrows=True), P("Tup12", "12 x u8 tuple", 1, 3, borrows=True),
    # ranges, bounds, control flow
    P("RangeU32", "Range<u32>"), P("RangeFromU8", "RangeFrom<u8>"), P("RangeToU32", "RangeTo<u32>"), P("RangeToInclU8", "RangeToInclusive<u8>"),
    P("RangeFullC", "RangeFull"), P("RangeInclU32", "RangeInclusive<u32> (not exhausted)", quick=True), P("BoundU32", "Bound<u32>", quick=True),
    P("CfU8U16", "ControlFlow<u8,u16>", quick=True),
    P("BoundString", "Bound<String>", 1, 6, borrows=True, shapes=3, qshapes=[2]), P("CfStringVec", "ControlFlow<String,Vec<u8>>", 1, 6, borrows=True, shapes=3, qshapes=[1]),
    # derived deep-copy
    P("DeepSVec", "DeepS<Vec<u16>>", 2, 6, borrows=True, quick=True), P("DeepSStr", "DeepS<String>", 1, 6, borrows=True, shapes=3, qshapes=[2]),
    P("DeepSU32", "DeepS<u32>"), P("MentionU16", "Mention<u16>", 2, 6), P("BothC", "Both<Vec<u8>,u16,String>", 2, 5, borrows=True),
    P("BothBool", "Both<bool,u32,()>", 4, 4, quick=True, note="primitive through its eps method, then aligned data"), P("BothU8", "Both<u8,u32,()>", 4, 4), P("BothOptU8", "Both<Option<u8>,u32,()>", 4, 4, quick=True),
    P("BothNzU8", "Both<NonZeroU8,u32,()>", 4, 4), P("BothChar", "Both<char,u32,()>", 4, 4), P("BothOptBool", "Both<Option<bool>,u32,()>", 4, 4),
    P("GenC", "Gen<Vec<u16>,2>", 2, 10, borrows=True), P("TupSC", "TupS", 2, 6), P("UnitSC", "UnitS"),
    P("DeepPrimsC", "DeepPrims (#[deep_copy])"),
    P("HoldZUnit", "Hold<ZUnit>", 1, 3, quick=True), P("HoldZAl4", "Hold<ZAl4>", 4, 3, quick=True, note="over-aligned ZST in a parameter field"),
    P("HoldZeroS", "Hold<ZeroS>", 4, 3, borrows=True),
    # derived zero-copy
    P("ZeroSC", "ZeroS", 4, 3, borrows=True, quick=True), P("ZTailC", "ZTail", 4, 3, borrows=True), P("ZAl32C", "ZAl32", 32, 3, cap=128, borrows=True),
    P("ZGenU32", "ZGen<u32>", 4, 3, borrows=True), P("ZNestC", "ZNest", 4, 8, borrows=True), P("ZConst3", "ZConst<3>", 2, 6, borrows=True),
    P("ZEC", "ZE (zero-copy enum)", 8, 3, borrows=True, quick=True), P("ZUnitC", "ZUnit"), P("ZAl4C", "ZAl4", 4, 3),
    # derived enums
    P("EnU8", "En<u8>", quick=True), P("EnVec", "En<Vec<u16>>", 2, 5, borrows=True), P("E1C", "E1"), P("E2C", "E2"),
    P("E5C", "E5<Vec<u8>>", 2, 5, borrows=True, quick=True),
    # more compositions (thorough tier only)
    P("VecChar", "Vec<char>", 4, 4, borrows=True), P("VecBool", "Vec<bool>", 1, 5, borrows=True), P("VecNzU32", "Vec<NonZeroU32>", 4, 4, borrows=True),
    P("VecI64", "Vec<i64>", 8, 4, borrows=True), P("VecTup1U8", "Vec<(u8,)>", 1, 5, borrows=True), P("VecArrU8x0", "Vec<[u8;0]>", 1, 4, borrows=True, note="zero-sized array elements"),
    P("VecRangeToInclU8", "Vec<RangeToInclusive<u8>>", 1, 5, borrows=True), P("VecZGenU32", "Vec<ZGen<u32>>", 4, 4, borrows=True), P("VecZConst3", "Vec<ZConst<3>>", 2, 4, borrows=True),
    P("VecF32", "Vec<f32>", 4, 4, borrows=True), P("OptBool", "Option<bool>"), P("OptChar", "Option<char>"), P("OptRangeU32", "Option<Range<u32>>"),
    P("CfUnitU8", "ControlFlow<(),u8>"), P("OptPhantom", "Option<PhantomData<u8>>"), P("RangeU64", "Range<u64>"), P("BoundUnit", "Bound<()>"), P("OptNzU8", "Option<NonZeroU8>"),
    P("RangeInclU8", "RangeInclusive<u8> (not exhausted)"), P("OptString", "Option<String>", 1, 6, borrows=True, shapes=3, qshapes=[2]),
    P("BoundVecU8", "Bound<Vec<u8>>", 1, 5, borrows=True), P("BoxVecU8", "Box<[Vec<u8>]>", 1, 4, borrows=True, shapes=4, qshapes=[3], apairs={0: 0, 1: 1, 2: 3, 3: 2}),
    P("ArrArrU32x0", "[[u32;0];2]", 4, 3, borrows=True), P("ArrZUnitx3", "[ZUnit;3]", 1, 5, borrows=True), P("ArrZAl4x2", "[ZAl4;2]", 4, 3, borrows=True),
    P("ArrTup2x2", "[(u16,u16);2]", 2, 6, borrows=True), P("TupZeroS2", "(ZeroS,ZeroS)", 4, 3, borrows=True), P("TupF64x2", "(f64,f64)", 8, 3, borrows=True),
    P("HoldVecZUnit", "Hold<Vec<ZUnit>>", 1, 4, borrows=True), P("HoldArrU64x0", "Hold<[u64;0]>", 8, 3, borrows=True, note="empty over-aligned array in a parameter field"),
    P("EnZeroS", "En<ZeroS>", 4, 3, borrows=True),
    # nesting
    P("OptZeroS", "Option<ZeroS>", 4, 3, borrows=True), P("VecDeepS", "Vec<DeepS<Vec<u8>>>", 1, 5, borrows=True, shapes=2, apairs={0: 0, 1: 1}),
]
BY = {r["case"]: r for r in ROWS}


def residues(row, tier, fam=None):
    u = row["unit"]
    if tier == "thorough":
        return list(range(u))
    return sorted({0, 1 % max(u, 1) if u > 1 else 1, u - 1 if u > 1 else 0})


FAMILIES = {
    # family -> (generic fn, takes PRE)
    "c01": ("full_rt", True),
    "c02": ("eps_rt", True),
    "c03": ("eps_borrows", True),
    "c07": ("units_counts", True),
    "c03a": ("eps_alloc", True),
}


def shapes(row, tier):
    return list(range(row["shapes"])) if tier == "thorough" else row["qshapes"]


def inst_name(fam, case, pre, shape=0):
    return f"i_{fam}_{case.lower()}_p{pre}" + (f"_s{shape}" if BY[case]["shapes"] > 1 else "")
