#!/bin/bash
# Like seed_verify.sh, for a seed whose demonstration is a stand-alone crate (seed/demo_crate with
# path dependencies ../../epserde and a [patch] for the local derive): C17.
set -u
name=$1; src=$2; shift 2; props="$@"
wt=/tmp/sv-$name
out=/verif/seeded/$name
mkdir -p $out
git -C /repo worktree remove --force $wt 2>/dev/null
git -C /repo worktree add -f --detach $wt HEAD -q || exit 3
cp /repo/Cargo.lock $wt/ 2>/dev/null
export CARGO_TARGET_DIR=$wt/target CARGO_NET_OFFLINE=true VERIF_MAX_REPLAYS=1
cd $wt
git apply $src/seed/patch.diff || { echo "PATCH DOES NOT APPLY"; exit 3; }
suite=$(cargo test --workspace --offline 2>&1 | grep -E "^test result" | awk '{p+=$4; f+=$6} END {print p" passed "f" failed"}')
echo "suite with change: $suite"
mkdir -p seed && cp -r $src/seed/demo_crate seed/
(cd seed/demo_crate && CARGO_TARGET_DIR=$wt/target-demo cargo test --offline > /tmp/sv-$name.with.log 2>&1); wrc=$?
with="exit=$wrc $(grep -E '^test result|^error(\[E[0-9]+\])?:' /tmp/sv-$name.with.log | tail -1 | cut -c1-120)"
echo "demo crate WITH change: $with"
git checkout -q -- epserde/src epserde-derive/src
(cd seed/demo_crate && CARGO_TARGET_DIR=$wt/target-demo cargo test --offline > /tmp/sv-$name.without.log 2>&1); worc=$?
without="exit=$worc $(grep -E '^test result' /tmp/sv-$name.without.log | tail -1)"; rm -f /tmp/sv-$name.with.log /tmp/sv-$name.without.log
echo "demo crate WITHOUT change: $without"
git apply $src/seed/patch.diff
cp $src/seed/patch.diff $out/; cp $src/seed/demo.rs $out/ 2>/dev/null; rm -rf $out/demo_crate; cp -r $src/seed/demo_crate $out/demo_crate; rm -rf $out/demo_crate/target
cp $src/seed/README.md $out/AGENT_README.md 2>/dev/null
rm -rf $wt/seed
results=""
for p in $props; do
  VERIF_REPO=$wt VERIF_WORK=${MUTWORK:-/verif/.work-mut} VERIF_JOBS=${MUTJOBS:-14} /verif/bin/check $p --tier quick > $out/check_$p.log 2>&1
  rc=$?
  echo "check $p on mutant: rc=$rc  $(grep -c '^VIOLATION' $out/check_$p.log) violation lines"
  grep -E "^VIOLATION|failed check" $out/check_$p.log | head -6 | cut -c1-260
  results="$results $p:rc=$rc"
done
cd /; git -C /repo worktree remove --force $wt
python3 - "$name" "$suite" "$with" "$without" "$results" <<'PY'
import json,sys,os
name,suite,w,wo,res=sys.argv[1:6]
p=f"/verif/seeded/{name}/meta.json"
m=json.load(open(p)) if os.path.exists(p) else {}
m.update(json.load(open("/verif/seeded/INFO.json")).get(name,{}))
m.update({"name":name,"suite_with_change":suite,"demo_with_change":w,"demo_without_change":wo,
          "checks_run":{r.split(':')[0]:r.split(':')[1] for r in res.split()},
          "how":"fresh worktree of /repo HEAD; git apply patch.diff; cargo test --workspace --offline; demo crate (local derive via [patch]) with and without the patch; VERIF_REPO=<worktree> bin/check <ID> --tier quick"})
json.dump(m,open(p,"w"),indent=1)
PY
