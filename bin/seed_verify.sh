#!/bin/bash
# usage: seed_verify.sh <seed-name> <source-dir-with-seed/> <property> [more properties to run]
# Confirms a seeded change in a fresh scratch worktree (suite green with it, demo fails with it
# and passes without it), stores it under /verif/seeded/<name>/ and runs the given checks against it.
# The patch is re-based onto /repo's current HEAD (git apply, falling back to -C1) and the
# re-based diff is what is stored.
set -u
name=$1; src=$2; shift 2; props="$@"
wt=/tmp/sv-$name
out=/verif/seeded/$name
mkdir -p $out
git -C /repo worktree remove --force $wt 2>/dev/null
git -C /repo worktree add -f --detach $wt HEAD -q || exit 3
cp /repo/Cargo.lock $wt/ 2>/dev/null
export CARGO_TARGET_DIR=$wt/target CARGO_NET_OFFLINE=true VERIF_MAX_REPLAYS=1
cd $wt
git apply $src/seed/patch.diff 2>/dev/null || git apply -C1 $src/seed/patch.diff || { echo "PATCH DOES NOT APPLY"; cd /; git -C /repo worktree remove --force $wt; exit 3; }
git diff > /tmp/sv-$name.rebased.diff
suite=$(cargo test --workspace --offline 2>&1 | grep -E "^test result" | awk '{p+=$4; f+=$6} END {print p" passed "f" failed"}')
echo "suite with change (no demo): $suite"
cp $src/seed/demo.rs epserde/tests/seed_demo.rs
cargo test -p epserde --offline --test seed_demo > /tmp/sv-$name.with.log 2>&1; wrc=$?
with="exit=$wrc $(grep -E '^test result|SIGABRT|SIGSEGV|signal' /tmp/sv-$name.with.log | tail -1)"
echo "demo WITH change: $with"
git checkout -q -- epserde/src epserde-derive/src
cargo test -p epserde --offline --test seed_demo > /tmp/sv-$name.without.log 2>&1; worc=$?
without="exit=$worc $(grep -E '^test result' /tmp/sv-$name.without.log | tail -1)"
echo "demo WITHOUT change: $without"
rm -f epserde/tests/seed_demo.rs /tmp/sv-$name.with.log /tmp/sv-$name.without.log
git apply /tmp/sv-$name.rebased.diff
cp $src/seed/demo.rs $out/; mv /tmp/sv-$name.rebased.diff $out/patch.diff
cp $src/seed/README.md $out/AGENT_README.md 2>/dev/null
results=""
for p in $props; do
  VERIF_REPO=$wt VERIF_WORK=${MUTWORK:-/verif/.work-mut} VERIF_JOBS=${MUTJOBS:-14} /verif/bin/check $p --tier quick > $out/check_$p.log 2>&1
  rc=$?
  echo "check $p on mutant: rc=$rc  $(grep -c '^VIOLATION' $out/check_$p.log) violation lines"
  grep -E "^VIOLATION|failed check" $out/check_$p.log | head -6 | cut -c1-260
  results="$results $p:rc=$rc"
done
cd /; git -C /repo worktree remove --force $wt
python3 /verif/bin/seed_meta.py "$name" "$suite" "$with" "$without" "$results"
