HOOK_COMMITS = []
NOTES = ("Exit codes of bin/check: 0 held, 1 violation (VIOLATION line), 2 inconclusive (time-out, out of memory, unwinding "
         "bound too small, build failure, counterexample that does not replay). Known findings: /verif/known_findings.json.")
NOT_APPLICABLE = {}
TEXT = {
    "C07": dict(
        text="For the padding formula: all 2^64 offsets x all 64 power-of-two units decided by the solver (no bound). For units and byte counts: bounded model checking of the real serializers/deserializers per listed type and per start residue, all values symbolic.",
        note="Trusted: Kani's MIR->GOTO translation, CBMC, CaDiCaL; the recording writer Probe (trait defaults + log). Types outside the listed universe and sequences longer than the bound are outside the claim."),
    "C19": dict(
        text="seek: all positions and all SeekFrom values against the real std::io::Cursor (no bound). write/read/set_position: one step from every reachable state in a listed (len,pos,write-len) grid <= 40 bytes with symbolic contents against an array model of std's cursor that is itself tied to std::io::Cursor.",
        note="Trusted: Kani/CBMC/CaDiCaL and std's Cursor as the reference; positions near usize::MAX and states > 40 B are outside."),
}

_RT_NOTE = ("Trusted: Kani's MIR->GOTO translation and std models, CBMC, CaDiCaL; the environment stubs listed in the evidence "
            "(Sink/Exact/Al, the UTF-8 validity model replacing core::str::from_utf8). The program dimension is the listed universe "
            "(bin/universe.py): types are not solver variables. Sequences <= 3 elements, strings <= 2 chars (all code points per width class).")
TEXT.update({
    "C01": dict(text="Bounded model checking of the real serializers and full-copy deserializers (incl. the derive macro's output): for every listed type, start residue and shape, all values are symbolic; the solver shows serialize -> deserialize_full returns an equal value and consumes exactly the bytes written.", note=_RT_NOTE),
    "C02": dict(text="Same harness family with both deserializers on the same 128-aligned bytes: eps result equals the original under the documented substitution and equals full-copy; all values symbolic.", note=_RT_NOTE),
    "C03": dict(text="Pointer identity decided by the solver: every borrowed slice/str/reference of the eps result starts at buffer base + the offset at which a recording writer saw the serializer emit that block, has the written length, is aligned and in bounds; CBMC's pointer checks cover the unsafe align_to/from_raw_parts code. The allocation-count sub-claim is outside (no allocation counter in Kani).", note=_RT_NOTE),
    "C10": dict(text="All 2^232 values of the 29 fixed header bytes are symbolic at once for each listed reader type and both modes; the oracle is the published priority list written independently; every error arm and the accepted arm (incl. lower minor) have satisfied cover witnesses.", note="Trusted: Kani/CBMC/CaDiCaL; UTF-8 validity model for the (uncorrupted) type name. Reader types limited to streams <= 64 bytes."),
    "C12": dict(text="Base-address residue R in 0..128 is a solver variable together with all values; the expected verdict is computed from the blocks a recording writer logged (Ok iff every block lands on a multiple of its unit, else AlignmentError), references must be aligned on Ok.", note=_RT_NOTE + " CBMC places objects at maximally aligned bases, so misplacement is the explicit offset R."),
    "C13": dict(text="Failure position (every k in 0..=len), flush failure and short-write/Interrupted/Ok(0) patterns are solver variables; Err(WriteError) iff a failure was injected, accepted bytes are a prefix of the fault-free stream, and the source value is used and dropped inside the harness so double/invalid frees are CBMC check failures (replayed under Miri).", note="Trusted: Kani/CBMC/CaDiCaL; Faulty/ShortW writers. Real files and /dev/full are outside (FFI)."),
    "C15": dict(text="All 256 one-byte tags (Option, Bound, ControlFlow) and all 2^64 pointer-width tags (derived enums) with symbolic payloads, both modes; the expected tags are obtained by running the real serializer on each variant inside the harness.", note="Trusted: Kani/CBMC/CaDiCaL. Enums outside the universe are outside."),
    "C16": dict(text="Streams of Vec<T>, &[T] and SerIter over the same symbolic items are compared byte-for-byte (header included, one symbolic index) and by returned byte count; lying iterators with symbolic (announced, actual) must yield IteratorLengthMismatch with both counts.", note="Trusted: Kani/CBMC/CaDiCaL. len <= 3; announced, actual <= 4."),
})
