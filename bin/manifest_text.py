HOOK_COMMITS = []
NOTES = ("Exit codes of bin/check: 0 held, 1 violation (VIOLATION line), 2 inconclusive (time-out, out of memory, unwinding "
         "bound too small, build failure, counterexample that does not replay). Known findings: /verif/known_findings.json.")
NOT_APPLICABLE = {}
TEXT = {
    "C07": dict(
        text="For the padding formula: all 2^64 offsets x all 64 power-of-two units decided by the solver (no bound). For units and byte counts: bounded model checking of the real serializers/deserializers per listed type and per start residue, all values symbolic.",
        note="Trusted: Kani's MIR->GOTO translation, CBMC, CaDiCaL; the recording writer Probe (trait defaults + log). Types outside the listed universe and sequences longer than the bound are outside the claim."),
    "C19": dict(
        text="seek: all positions and all SeekFrom values against the real std::io::Cursor (no bound). write/read/set_position: one step from every reachable state in a listed (len,pos,write-len) grid <= 40 bytes with symbolic contents against an array model of std's cursor that is itself tied to std::io::Cursor.",
        note="Trusted: Kani/CBMC/CaDiCaL and std's Cursor as the reference; positions near usize::MAX and states > 40 B are outside."),
}
