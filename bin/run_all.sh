#!/bin/bash
# Runs the given tier of every property check sequentially (development helper).
tier=${1:-quick}; shift
props=${@:-C07 C15 C10 C13 C16 C19 C17 C18 C14 C11 C04 C09 C08 C06 C05 C12 C03 C01 C02}
cd /verif
for p in $props; do
  echo "=== $p $(date +%T)"; bin/check $p --tier $tier > /tmp/${tier}_$p.log 2>&1; echo "rc=$? $(date +%T)"; grep -E "^\[$p\] tier|^INCONCLUSIVE|^VIOLATION|^KNOWN" /tmp/${tier}_$p.log | cut -c1-400
done
