"""Which harnesses decide which property, per tier (see DESIGN.md §5)."""


def H(name, **kw):
    d = dict(name=name)
    d.update(kw)
    return d


def twin(name, **kw):
    return H(name, expect="fail", covers="none", what="reachability twin: final assertion must be violated", **kw)


PLAN = {}

import universe as U


def fam_harnesses(fam, tier, what, rows=None, only_borrows=False):
    hs = []
    for row in (rows or U.ROWS):
        if tier == "quick" and not row["quick"]:
            continue
        if only_borrows and not row["borrows"]:
            continue
        for pre in U.residues(row, tier):
            for sh in U.shapes(row, tier):
                hs.append(H("inst::" + U.inst_name(fam, row["case"], pre, sh),
                            bound=f"{row['ty']}: all values (sequence/char bounds per cases.rs; shape {sh} of {row['shapes']}), start residue {pre} of unit {row['unit']}, unwind {row['unwind']}",
                            what=what, role=f"{fam}/{row['case']}"))
    return hs


COMMON_OUTSIDE = [
    "types outside the listed universe (bin/universe.py); longer sequences than the per-case bound (<= 3 elements, <= 2 chars)",
    "big-endian and 32-bit targets",
]

PLAN["C01"] = dict(
    quick=lambda seed: [dict(harnesses=fam_harnesses("c01", "quick", "serialize -> deserialize_full == original; bytes consumed == bytes written") + [twin("c01::c01_twin_reach")])],
    thorough=lambda seed: [dict(harnesses=fam_harnesses("c01", "thorough", "serialize -> deserialize_full == original; bytes consumed == bytes written") + [twin("c01::c01_twin_reach")], timeout=1800)],
    bounds={"sequence_len": "<= 3 (per case)", "string_chars": "<= 2, all code points", "start_residues": "quick {0,1,unit-1}; thorough 0..unit-1"},
    outside=COMMON_OUTSIDE, stubs=["Sink<N>: WriteNoStd into [u8;N]", "Exact: ReadNoStd over a slice"], assumptions=[],
)

PLAN["C07"] = dict(
    quick=[dict(harnesses=[
        H("c07::c07_pad_formula", bound="all v: usize x all 64 power-of-two units", what="pad_align_to: multiple, < unit, minimal"),
        twin("c07::c07_twin_reach"),
    ])],
    thorough=[dict(harnesses=[
        H("c07::c07_pad_formula", bound="all v: usize x all 64 power-of-two units", what="pad_align_to: multiple, < unit, minimal"),
        twin("c07::c07_twin_reach"),
    ])],
    bounds={}, outside=[], stubs=[], assumptions=[],
)

PLAN["C19"] = dict(
    quick=[dict(harnesses=[
        H("c19::c19_seek_empty_a16", bound="all pos: usize x all SeekFrom (u64/i64), empty storage", what="seek vs std::io::Cursor"),
    ])],
    thorough=[dict(harnesses=[
        H("c19::c19_seek_empty_a16", bound="all pos: usize x all SeekFrom (u64/i64), empty storage", what="seek vs std::io::Cursor"),
    ])],
    bounds={}, outside=[], stubs=[], assumptions=[],
)

PLAN["SELFTEST"] = dict(
    quick=[dict(harnesses=[
        H("selftest::st_fail_assert"), H("selftest::st_unwind_small"), H("selftest::st_vacuous_cover"), H("selftest::st_oob_read"),
    ])],
    thorough=[], bounds={}, outside=[], stubs=[], assumptions=[],
)

RT_STUBS = ["Sink<N>: WriteNoStd into [u8;N]", "Exact: ReadNoStd over a slice", "Al<N>: repr(align(128)) buffer",
            "core::str::from_utf8 -> env::from_utf8_stub (byte-wise model of UTF-8 well-formedness; std's validator does not fit in memory)"]
RT_BOUNDS = {"sequence_len": "<= 3 (per case; nested/deep sequences and strings as enumerated shapes, see cases.rs *_SHAPES)",
             "string_chars": "<= 2, every code point of each UTF-8 width class", "start_residues": "quick {0,1,unit-1}; thorough 0..unit-1"}


def rt_plan(pid, fam, what, twin_name, only_borrows=False, stubs=None):
    PLAN[pid] = dict(
        quick=lambda seed: [dict(harnesses=fam_harnesses(fam, "quick", what, only_borrows=only_borrows) + [twin(twin_name)])],
        thorough=lambda seed: [dict(harnesses=fam_harnesses(fam, "thorough", what, only_borrows=only_borrows) + [twin(twin_name)], timeout=1800)],
        bounds=RT_BOUNDS, outside=COMMON_OUTSIDE, stubs=stubs or RT_STUBS, assumptions=[])


rt_plan("C01", "c01", "serialize -> deserialize_full (real ReaderWithPos) == original; bytes consumed == bytes written", "c01::c01_twin_reach")
rt_plan("C02", "c02", "eps == original under the substitution; eps == full on the same bytes; both consume exactly the stream", "c01::c01_twin_reach")
rt_plan("C03", "c03", "every borrowed part == the block the Probe writer recorded (pointer identity), in bounds, aligned", "c01::c01_twin_reach", only_borrows=True,
        stubs=RT_STUBS + ["Probe: WriteWithNames delegating to the real WriterWithPos, logging align/write_bytes events"])
PLAN["C03"]["outside"] = COMMON_OUTSIDE + ["the allocation-count sub-claim (allocated memory independent of borrowed lengths): Kani offers no allocation counter; pointer identity of every borrowed part with the input buffer is decided instead"]


def c07_jobs(tier):
    hs = fam_harnesses("c07", tier, "unit is a power of two >= align; block offset % unit == 0; gap zero, < unit, minimal; byte counts exact")
    hs += [H("c07::c07_pad_formula", bound="all v: usize x all 64 power-of-two units", what="pad_align_to: multiple, < unit, minimal"),
           H("c07::c07_units", bound="every zero-copy type of the universe (concrete evaluation)", what="max_size_of is a power of two >= align_of and >= every field's unit"),
           twin("c07::c07_twin_reach")]
    return [dict(harnesses=hs, timeout=600 if tier == "quick" else 1800)]


PLAN["C07"] = dict(quick=lambda seed: c07_jobs("quick"), thorough=lambda seed: c07_jobs("thorough"),
                   bounds=RT_BOUNDS, outside=COMMON_OUTSIDE,
                   stubs=RT_STUBS + ["Probe: WriteWithNames delegating to the real WriterWithPos, logging align/write_bytes events"], assumptions=[])


def c12_harnesses(tier):
    hs = []
    for row in U.ROWS:
        if not (row["unit"] > 1 or row["borrows"]):
            continue
        if tier == "quick" and not row["quick"]:
            continue
        for sh in U.shapes(row, tier):
            hs.append(H("inst::" + U.inst_name("c12", row["case"], "x", sh),
                        bound=f"{row['ty']}: all values, shape {sh}; buffer base residue R symbolic in 0..128",
                        what="Ok iff every recorded block lands on a multiple of its unit, else AlignmentError; references aligned",
                        role=f"c12/{row['case']}", covers="none"))
    return hs


PLAN["C12"] = dict(
    quick=lambda seed: [dict(harnesses=c12_harnesses("quick") + [twin("c12::c12_twin_reach")], timeout=900)],
    thorough=lambda seed: [dict(harnesses=c12_harnesses("thorough") + [twin("c12::c12_twin_reach")], timeout=3600)],
    bounds=dict(RT_BOUNDS, base_residue="all R in 0..128 (symbolic) of a 128-aligned buffer; stream offset 0"),
    outside=COMMON_OUTSIDE, stubs=RT_STUBS + ["Probe (as C07)"], assumptions=["CBMC places objects at maximally aligned bases: misplacement is the explicit offset R"])


def names(mod, lst, **kw):
    return [H(f"{mod}::{n}", **kw) for n in lst]


C10_TYPES = ["u32", "bool", "u64", "tup2", "arru32x1", "optu8"]
PLAN["C10"] = dict(
    quick=lambda seed: [dict(harnesses=names("c10", [f"c10_{t}_{m}" for t in ["u32", "tup2", "optu8"] for m in ("eps", "full")],
                                             bound="all 2^232 values of the 29 fixed header bytes; value symbolic", what="priority-list oracle: specific error carrying the offending value, or the value")
                             + [twin("c10::c10_twin_reach")])],
    thorough=lambda seed: [dict(harnesses=names("c10", [f"c10_{t}_{m}" for t in C10_TYPES for m in ("eps", "full")],
                                                bound="all 2^232 values of the 29 fixed header bytes; value symbolic", what="priority-list oracle")
                                + [twin("c10::c10_twin_reach")], timeout=1800)],
    bounds={"header": "all 29 bytes symbolic at once (superset of single-bit flips, reversed cookie, all 65536 minors)",
            "stream": "<= 64 bytes (reader types with short type names: u32, bool, u64, (u16,u16), [u32;1], Option<u8>)"},
    outside=["corruption of the type-name length/bytes (not a checked field)", "reader types whose stream exceeds 64 bytes (CBMC loses field sensitivity; check_header is generic code, only the two hash constants and the name differ per type)"],
    stubs=["Sink", "Exact", "Al", "core::str::from_utf8 -> env::from_utf8_stub"], assumptions=[])

PLAN["C13"] = dict(
    quick=lambda seed: [dict(harnesses=names("c13", ["c13_slice_u8", "c13_slice_u32", "c13_slice_deep", "c13_struct_with_slice", "c13_seriter", "c13_serialize_flush",
                                                       "c13_short_writes_u32", "c13_owned_u64", "c13_owned_vecu32", "c13_owned_str", "c13_owned_vecvec", "c13_owned_deeps",
                                                       "c13_owned_zeros", "c13_owned_e5", "c13_owned_optvec", "c13_owned_arrstr"],
                                             bound="failure position symbolic in 0..=N, values symbolic", covers="none") + [twin("c13::c13_twin_reach")])],
    thorough=lambda seed: [dict(harnesses=names("c13", ["c13_slice_u8", "c13_slice_u32", "c13_slice_deep", "c13_struct_with_slice", "c13_seriter", "c13_serialize_flush",
                                                          "c13_short_writes_u32", "c13_owned_u64", "c13_owned_vecu32", "c13_owned_str", "c13_owned_vecvec", "c13_owned_deeps",
                                                          "c13_owned_zeros", "c13_owned_e5", "c13_owned_optvec", "c13_owned_arrstr"],
                                                bound="failure position symbolic in 0..=N, values symbolic", covers="none") + [twin("c13::c13_twin_reach")], timeout=1800)],
    bounds={"fail_at": "every position 0..=stream length (symbolic)", "short_writes": "<= 6 write calls on a 4-byte value: symbolic short counts, Interrupted, Ok(0)"},
    outside=["BufWriter<File>, /dev/full, real ENOSPC (FFI)", "io::Error kinds other than Interrupted / WriteZero"],
    stubs=["Faulty<N>: WriteNoStd failing at a symbolic position / on flush", "ShortW<N>: io::Write with symbolic short counts"], assumptions=[])

C15_ALL = ["c15_option_u8_full", "c15_option_u8_eps", "c15_option_u8_eps_tag_only", "c15_option_vec_eps", "c15_bound_u32_full", "c15_bound_u32_eps",
           "c15_controlflow_full", "c15_controlflow_eps", "c15_en_u8_full", "c15_en_u8_eps", "c15_e1_full", "c15_e1_eps", "c15_e2_full", "c15_e2_eps",
           "c15_e5_full", "c15_e5_eps"]
PLAN["C15"] = dict(
    quick=lambda seed: [dict(harnesses=names("c15", C15_ALL, bound="all 256 one-byte tags / all 2^64 pointer-width tags, payload symbolic",
                                             what="Ok(variant) iff tag is the one the real serializer writes for it, else InvalidTag(tag)") + [twin("c15::c15_twin_reach")])],
    thorough=lambda seed: [dict(harnesses=names("c15", C15_ALL, bound="all tags, payload symbolic", what="tag oracle") + [twin("c15::c15_twin_reach")], timeout=1800)],
    bounds={"tags": "all 256 byte values (Option, Bound, ControlFlow); all 2^64 usize values (derived enums En, E1, E2; E5: written tag or any foreign value)"},
    outside=["a valid tag of a *different* variant placed before a payload (payload misinterpretation, not a tag property)", "derived enums outside the universe"],
    stubs=["Sink", "Al"], assumptions=[])

C16_ALL = ["c16_hdr_u16", "c16_hdr_u64", "c16_hdr_zeros", "c16_inner_u8_p0", "c16_inner_u16_p1", "c16_inner_u64_p3", "c16_inner_u128_p5", "c16_inner_zeros_p2",
           "c16_inner_unit_p0", "c16_inner_slice_deep", "c16_hdr_nested", "c16_deser_as_vec", "c16_lying_u16", "c16_lying_u64"]
PLAN["C16"] = dict(
    quick=lambda seed: [dict(harnesses=names("c16", C16_ALL, bound="items symbolic, len <= 3; (announced, actual) in 0..=4 x 0..=4", covers="none") + [twin("c16::c16_twin_reach")], timeout=900)],
    thorough=lambda seed: [dict(harnesses=names("c16", C16_ALL, bound="items symbolic, len <= 3", covers="none") + [twin("c16::c16_twin_reach")], timeout=2400)],
    bounds={"len": "<= 3", "lying": "announced, actual <= 4"}, outside=["longer sequences", "iterators with side effects"],
    stubs=["Sink", "Al", "Exact", "Liar: ExactSizeIterator with symbolic announced/actual lengths"], assumptions=[])


def c19_grid():
    import re, os
    src = open(os.path.join(os.path.dirname(os.path.dirname(os.path.abspath(__file__))), "harness", "src", "c19_grid.rs")).read()
    return re.findall(r"^\s+(c19_[wr]_a\d+_l\d+_p\d+_n\d+):", src, re.M)


def c19_jobs(tier):
    g = c19_grid()
    if tier == "quick":
        keep = []
        for n in g:
            m = __import__("re").match(r"c19_([wr])_a(\d+)_l(\d+)_p(\d+)_n(\d+)", n)
            k, a, l, p, w = m.group(1), int(m.group(2)), int(m.group(3)), int(m.group(4)), int(m.group(5))
            if a == 64:
                if w == 2 and l in (1, 64) :
                    keep.append(n)
            elif l in (0, 15, 17, 32) and w in (0, 2, 17) and p in (0, l, l + 1, 16, 33):
                keep.append(n)
        g = keep
    hs = names("c19", ["c19_seek_empty_a16", "c19_seek_len5_a16", "c19_seek_len17_a64"], bound="all pos: usize x all SeekFrom (u64/i64)", what="seek vs std::io::Cursor")
    hs += names("c19", g, bound="(len,pos,n) grid point, byte contents symbolic", what="one write/read step vs the real std::io::Cursor + representation invariant", covers="none")
    hs += names("c19", ["c19_history_a16"], bound="write 3, set_position <= 20, write 2, seek End(-8..8), read 4", what="short history vs std", covers="none")
    hs += [twin("c19::c19_twin_reach")]
    return [dict(harnesses=hs, timeout=600 if tier == "quick" else 1800)]


PLAN["C19"] = dict(quick=lambda seed: c19_jobs("quick"), thorough=lambda seed: c19_jobs("thorough"),
                   bounds={"grid": "len in {0,1,15,16,17,31,32,33}, pos in {0,1,len-1,len,len+1,15,16,17,31,32,33,40}, n in {0,1,2,16,17}; A64: len in {0,1,63,64,65}",
                           "seek": "no bound: all 2^64 positions x all SeekFrom"},
                   outside=["positions near usize::MAX (std aborts on capacity overflow)", "states larger than 57 bytes", "histories longer than 3 steps"],
                   stubs=[], assumptions=["std::io::Cursor<Vec<u8>> run on the same inputs inside the harness is the reference"])
