"""Which harnesses decide which property, per tier (see DESIGN.md §5)."""


def H(name, **kw):
    d = dict(name=name)
    d.update(kw)
    return d


def twin(name, **kw):
    return H(name, expect="fail", covers="none", what="reachability twin: final assertion must be violated", **kw)


PLAN = {}

import universe as U


def fam_harnesses(fam, tier, what, rows=None, only_borrows=False):
    hs = []
    for row in (rows or U.ROWS):
        if tier == "quick" and not row["quick"]:
            continue
        if only_borrows and not row["borrows"]:
            continue
        for pre in U.residues(row, tier):
            hs.append(H("inst::" + U.inst_name(fam, row["case"], pre),
                        bound=f"{row['ty']}: all values (sequence/char bounds per cases.rs), start residue {pre} of unit {row['unit']}, unwind {row['unwind']}",
                        what=what, role=f"{fam}/{row['case']}"))
    return hs


COMMON_OUTSIDE = [
    "types outside the listed universe (bin/universe.py); longer sequences than the per-case bound (<= 3 elements, <= 2 chars)",
    "big-endian and 32-bit targets",
]

PLAN["C01"] = dict(
    quick=lambda seed: [dict(harnesses=fam_harnesses("c01", "quick", "serialize -> deserialize_full == original; bytes consumed == bytes written") + [twin("c01::c01_twin_reach")])],
    thorough=lambda seed: [dict(harnesses=fam_harnesses("c01", "thorough", "serialize -> deserialize_full == original; bytes consumed == bytes written") + [twin("c01::c01_twin_reach")], timeout=1800)],
    bounds={"sequence_len": "<= 3 (per case)", "string_chars": "<= 2, all code points", "start_residues": "quick {0,1,unit-1}; thorough 0..unit-1"},
    outside=COMMON_OUTSIDE, stubs=["Sink<N>: WriteNoStd into [u8;N]", "Exact: ReadNoStd over a slice"], assumptions=[],
)

PLAN["C07"] = dict(
    quick=[dict(harnesses=[
        H("c07::c07_pad_formula", bound="all v: usize x all 64 power-of-two units", what="pad_align_to: multiple, < unit, minimal"),
        twin("c07::c07_twin_reach"),
    ])],
    thorough=[dict(harnesses=[
        H("c07::c07_pad_formula", bound="all v: usize x all 64 power-of-two units", what="pad_align_to: multiple, < unit, minimal"),
        twin("c07::c07_twin_reach"),
    ])],
    bounds={}, outside=[], stubs=[], assumptions=[],
)

PLAN["C19"] = dict(
    quick=[dict(harnesses=[
        H("c19::c19_seek_empty_a16", bound="all pos: usize x all SeekFrom (u64/i64), empty storage", what="seek vs std::io::Cursor"),
    ])],
    thorough=[dict(harnesses=[
        H("c19::c19_seek_empty_a16", bound="all pos: usize x all SeekFrom (u64/i64), empty storage", what="seek vs std::io::Cursor"),
    ])],
    bounds={}, outside=[], stubs=[], assumptions=[],
)

PLAN["SELFTEST"] = dict(
    quick=[dict(harnesses=[
        H("selftest::st_fail_assert"), H("selftest::st_unwind_small"), H("selftest::st_vacuous_cover"), H("selftest::st_oob_read"),
    ])],
    thorough=[], bounds={}, outside=[], stubs=[], assumptions=[],
)
