"""Which harnesses decide which property, per tier (see DESIGN.md §5)."""


def H(name, **kw):
    d = dict(name=name)
    d.update(kw)
    return d


def twin(name, **kw):
    return H(name, expect="fail", covers="none", what="reachability twin: final assertion must be violated", **kw)


PLAN = {}

import universe as U


# (family, case, shape): instances whose CBMC run exceeded 24 GB in the full thorough runs (every start residue is dropped);
# named in COMMON_OUTSIDE.  The same case is still run in the other families and in its other shapes.
RT_TOO_LARGE = {("c01", "VecDeepS", 1), ("c02", "VecDeepS", 1), ("c02", "DeepSStr", 2), ("c07", "BoxString", 5), ("c07", "VecString", 3),
                ("c03", "VecDeepS", 1), ("c03", "BoxString", 2), ("c03", "BoxString", 3), ("c03", "BoxString", 4), ("c03", "BoxString", 5),
                ("c03", "VecString", 2), ("c03", "VecString", 3), ("c03", "VecString", 4), ("c03", "VecString", 5)}
# full-copy / eps round trips of Vec<String> and Box<[String]> with two strings (shapes 2..5): > 24 GB in the first full thorough run of C01
RT_TOO_LARGE |= {(f, c, sh) for f in ("c01", "c02") for c in ("VecString", "BoxString") for sh in (2, 3, 4, 5)}
# killed in the first full thorough run of C02 (possibly only under the memory pressure of the instances above; not re-measured)
RT_TOO_LARGE |= {("c02", "BoundString", 0), ("c02", "BoundString", 2), ("c02", "ArrStringx0", 0)}


def fam_harnesses(fam, tier, what, rows=None, only_borrows=False, covers="all"):
    hs = []
    for row in (rows or U.ROWS):
        if tier == "quick" and not row["quick"]:
            continue
        if only_borrows and not row["borrows"]:
            continue
        for pre in ([0] if fam == "c03a" else U.residues(row, tier)):
            for sh in U.shapes(row, tier):
                if (fam, row["case"], sh) in RT_TOO_LARGE:
                    continue
                hs.append(H("inst::" + U.inst_name(fam, row["case"], pre, sh),
                            bound=f"{row['ty']}: all values (sequence/char bounds per cases.rs; shape {sh} of {row['shapes']}), start residue {pre} of unit {row['unit']}, unwind {row['unwind']}",
                            what=what, role=f"{fam}/{row['case']}", covers=covers))
    return hs


COMMON_OUTSIDE = [
    "types outside the listed universe (bin/universe.py); longer sequences than the per-case bound (<= 3 elements, <= 2 chars)",
    "big-endian and 32-bit targets",
    "round-trip family instances that exceed 24 GB: " + ", ".join(f"{f}/{c} shape {sh}" for f, c, sh in sorted(RT_TOO_LARGE)),
]

PLAN["C01"] = dict(
    quick=lambda seed: [dict(harnesses=fam_harnesses("c01", "quick", "serialize -> deserialize_full == original; bytes consumed == bytes written") + [twin("c01::c01_twin_reach")])],
    thorough=lambda seed: [dict(harnesses=fam_harnesses("c01", "thorough", "serialize -> deserialize_full == original; bytes consumed == bytes written") + [twin("c01::c01_twin_reach")], timeout=1800)],
    bounds={"sequence_len": "<= 3 (per case)", "string_chars": "<= 2, all code points", "start_residues": "quick {0,1,unit-1}; thorough 0..unit-1"},
    outside=COMMON_OUTSIDE, stubs=["Sink<N>: WriteNoStd into [u8;N]", "Exact: ReadNoStd over a slice"], assumptions=[],
)

PLAN["C07"] = dict(
    quick=[dict(harnesses=[
        H("c07::c07_pad_formula", bound="all v: usize x all 64 power-of-two units", what="pad_align_to: multiple, < unit, minimal"),
        twin("c07::c07_twin_reach"),
    ])],
    thorough=[dict(harnesses=[
        H("c07::c07_pad_formula", bound="all v: usize x all 64 power-of-two units", what="pad_align_to: multiple, < unit, minimal"),
        twin("c07::c07_twin_reach"),
    ])],
    bounds={}, outside=[], stubs=[], assumptions=[],
)

PLAN["C19"] = dict(
    quick=[dict(harnesses=[
        H("c19::c19_seek_empty_a16", bound="all pos: usize x all SeekFrom (u64/i64), empty storage", what="seek vs std::io::Cursor"),
    ])],
    thorough=[dict(harnesses=[
        H("c19::c19_seek_empty_a16", bound="all pos: usize x all SeekFrom (u64/i64), empty storage", what="seek vs std::io::Cursor"),
    ])],
    bounds={}, outside=[], stubs=[], assumptions=[],
)

PLAN["SELFTEST"] = dict(
    quick=[dict(harnesses=[
        H("selftest::st_fail_assert"), H("selftest::st_unwind_small"), H("selftest::st_vacuous_cover"), H("selftest::st_oob_read"), H("selftest::st_cover_then_fail"),
    ])],
    thorough=[], bounds={}, outside=[], stubs=[], assumptions=[],
)

RT_STUBS = ["Sink<N>: WriteNoStd into [u8;N]", "Exact: ReadNoStd over a slice", "Al<N>: repr(align(128)) buffer",
            "core::str::from_utf8 -> env::from_utf8_stub (byte-wise model of UTF-8 well-formedness; std's validator does not fit in memory)"]
RT_BOUNDS = {"sequence_len": "<= 3 (per case; nested/deep sequences and strings as enumerated shapes, see cases.rs *_SHAPES)",
             "string_chars": "<= 2, every code point of each UTF-8 width class", "start_residues": "quick {0,1,unit-1}; thorough 0..unit-1"}


def rt_plan(pid, fam, what, twin_name, only_borrows=False, stubs=None, covers="all"):
    PLAN[pid] = dict(
        quick=lambda seed: [dict(harnesses=fam_harnesses(fam, "quick", what, only_borrows=only_borrows, covers=covers) + [twin(twin_name)])],
        thorough=lambda seed: [dict(harnesses=fam_harnesses(fam, "thorough", what, only_borrows=only_borrows, covers=covers) + [twin(twin_name)], timeout=1800)],
        bounds=RT_BOUNDS, outside=COMMON_OUTSIDE, stubs=stubs or RT_STUBS, assumptions=[])


rt_plan("C01", "c01", "serialize -> deserialize_full (real ReaderWithPos) == original; bytes consumed == bytes written", "c01::c01_twin_reach")
rt_plan("C02", "c02", "eps == original under the substitution; eps == full on the same bytes; both consume exactly the stream", "c01::c01_twin_reach")
rt_plan("C03", "c03", "every borrowed part == the block the Probe writer recorded (pointer identity), in bounds, aligned", "c01::c01_twin_reach", only_borrows=True, covers="none",
        stubs=RT_STUBS + ["Probe: WriteWithNames delegating to the real WriterWithPos, logging align/write_bytes events"])
PLAN["C03"]["family_covers"] = ["a borrowed part exists"]
_c03q, _c03t = PLAN["C03"]["quick"], PLAN["C03"]["thorough"]
_C03A_WHAT = "two values with the same deep-copy skeleton / fully copied fields and independently chosen borrowed lengths: same allocated bytes and allocator calls during eps deserialization"


def _c03_misplaced(tier):
    # "aligned for its element type" also has to hold when the input buffer itself is misaligned: the result is then
    # either AlignmentError or carries aligned references.  That is C12's harness family; the instances whose eps result
    # borrows are run for C03 as well (seed C03_align_fastpath_skips_addr_check only shows on a misaligned base).
    sel = ("ZeroSC", "VecU32", "ArrU32x3") if tier == "quick" else None
    out = []
    for h in c12_harnesses(tier):
        case = h["role"].split("/", 1)[1]
        if sel is None or case in sel:
            out.append(dict(h, what="(family shared with C12) misaligned buffer base, R symbolic: Ok implies every borrowed reference is aligned", role="c03-misplaced/" + case))
    return out


PLAN["C03"]["quick"] = lambda seed: [dict(_c03q(seed)[0], harnesses=_c03q(seed)[0]["harnesses"] + fam_harnesses("c03a", "quick", _C03A_WHAT, covers="all") + _c03_misplaced("quick"))]
PLAN["C03"]["thorough"] = lambda seed: [dict(_c03t(seed)[0], harnesses=_c03t(seed)[0]["harnesses"] + fam_harnesses("c03a", "thorough", _C03A_WHAT, covers="all") + _c03_misplaced("thorough"))]
PLAN["C03"]["stubs"] = PLAN["C03"]["stubs"] + ["std::alloc::alloc -> env::count_alloc_stub (alloc_zeroed + byte counter)"]
PLAN["C03"]["outside"] = COMMON_OUTSIDE + ["allocations that bypass std::alloc::alloc (realloc/alloc_zeroed are not called by the deserializers)"]
PLAN["C03"]["outside"] = COMMON_OUTSIDE + ["the allocation-count sub-claim (allocated memory independent of borrowed lengths): Kani offers no allocation counter; pointer identity of every borrowed part with the input buffer is decided instead"]


def c07_jobs(tier):
    hs = fam_harnesses("c07", tier, "unit is a power of two >= align; block offset % unit == 0; gap zero, < unit, minimal; byte counts exact", covers="none")
    hs += [H("c07::c07_pad_formula", bound="all v: usize x all 64 power-of-two units", what="pad_align_to: multiple, < unit, minimal"),
           H("c07::c07_units", bound="every zero-copy type of the universe (concrete evaluation)", what="max_size_of is a power of two >= align_of and >= every field's unit"),
           twin("c07::c07_twin_reach")]
    return [dict(harnesses=hs, timeout=600 if tier == "quick" else 1800)]


PLAN["C07"] = dict(quick=lambda seed: c07_jobs("quick"), thorough=lambda seed: c07_jobs("thorough"),
                   family_covers=["a zero-copy block was written", "a non-empty gap was written", "already aligned", "largest gap"],
                   bounds=RT_BOUNDS, outside=COMMON_OUTSIDE,
                   stubs=RT_STUBS + ["Probe: WriteWithNames delegating to the real WriterWithPos, logging align/write_bytes events"], assumptions=[])


C12_TOO_LARGE = ("VecDeepS", "BoxVecU8", "E5C", "GenC", "BothC", "ArrStringx2", "BoxString", "VecString", "VecVecU16", "VecZE", "VecZAl32", "VecU128")


def c12_harnesses(tier):
    hs = []
    for row in U.ROWS:
        if not (row["unit"] > 1 or row["borrows"]):
            continue
        if tier == "quick" and (not row["quick"] or row["case"] in ("VecVecU16", "VecU128", "GenC", "E5C")):
            continue
        # Option payload behind a parameter: the misplaced harness (symbolic base residue) exceeds the memory cap; BothBool,
        # BothU8, BothNzU8 and BothChar cover the same position bookkeeping
        if row["case"] in ("BothOptU8", "BothOptBool"):
            continue
        # with the buffer base a solver variable these exceed 24 GB (30 CBMC processes killed in the first full thorough run):
        # nested / string-holding / 16- and 32-byte-unit cases.  Their blocks go through the same SliceWithPos::align as the
        # cases that are run; listed under `outside`.
        if row["case"] in C12_TOO_LARGE:
            continue
        for sh in (U.shapes(row, tier) if tier == "thorough" else U.shapes(row, tier)[:1]):
            if (row["case"], sh) in (("Str", 6), ("BoxStr", 5)):  # two-character shapes: > 24 GB with the base symbolic
                continue
            hs.append(H("inst::" + U.inst_name("c12", row["case"], "x", sh),
                        bound=f"{row['ty']}: all values, shape {sh}; buffer base residue R symbolic in 0..128",
                        what="Ok iff every recorded block lands on a multiple of its unit, else AlignmentError; references aligned",
                        role=f"c12/{row['case']}", covers="none"))
    return hs


PLAN["C12"] = dict(
    quick=lambda seed: [dict(harnesses=c12_harnesses("quick") + [twin("c12::c12_twin_reach")], timeout=900)],
    thorough=lambda seed: [dict(harnesses=c12_harnesses("thorough") + [twin("c12::c12_twin_reach")], timeout=3600)],
    bounds=dict(RT_BOUNDS, base_residue="all R in 0..128 (symbolic) of a 128-aligned buffer; stream offset 0"),
    outside=COMMON_OUTSIDE + ["misplaced-buffer instances of " + ", ".join(C12_TOO_LARGE) + ", of Both<Option<_>,u32,()> and the shapes String#6 / Box<str>#5: with the base residue symbolic CBMC exceeds the memory cap; their blocks pass through the same SliceWithPos::align as the instances that are run"],
    stubs=RT_STUBS + ["Probe (as C07)"], assumptions=["CBMC places objects at maximally aligned bases: misplacement is the explicit offset R"])


def names(mod, lst, **kw):
    return [H(f"{mod}::{n}", **kw) for n in lst]


C10_TYPES = ["u32", "bool", "u64", "tup2", "arru32x1", "i8"]
PLAN["C10"] = dict(
    quick=lambda seed: [dict(harnesses=names("c10", [f"c10_{t}_{m}" for t in ["u32", "tup2", "bool"] for m in ("eps", "full")],
                                             bound="all 2^232 values of the 29 fixed header bytes; value symbolic", what="priority-list oracle: specific error carrying the offending value, or the value")
                             + [twin("c10::c10_twin_reach")])],
    thorough=lambda seed: [dict(harnesses=names("c10", [f"c10_{t}_{m}" for t in C10_TYPES for m in ("eps", "full")],
                                                bound="all 2^232 values of the 29 fixed header bytes; value symbolic", what="priority-list oracle")
                                + [twin("c10::c10_twin_reach")], timeout=1800)],
    bounds={"header": "all 29 bytes symbolic at once (superset of single-bit flips, reversed cookie, all 65536 minors)",
            "stream": "<= 64 bytes (reader types with short type names: u32, bool, u64, i8, (u16,u16), [u32;1])"},
    outside=["corruption of the type-name length/bytes (not a checked field)", "reader types whose stream exceeds 64 bytes (CBMC loses field sensitivity; check_header is generic code, only the two hash constants and the name differ per type)"],
    stubs=["Sink", "Exact", "Al", "core::str::from_utf8 -> env::from_utf8_stub"], assumptions=[])

PLAN["C13"] = dict(
    quick=lambda seed: [dict(harnesses=names("c13", ["c13_slice_u8", "c13_slice_u32", "c13_slice_deep", "c13_struct_with_slice", "c13_seriter", "c13_serialize_flush", "c13_schema_flush", "c13_schema_fail_k0", "c13_schema_fail_k30", "c13_schema_fail_k43",
                                                       "c13_short_writes_u32", "c13_owned_u64", "c13_owned_vecu32", "c13_owned_str", "c13_owned_vecvec", "c13_owned_deeps",
                                                       "c13_owned_zeros", "c13_owned_e5", "c13_owned_optvec", "c13_owned_arrstr"],
                                             bound="failure position symbolic in 0..=N, values symbolic", covers="none") + [twin("c13::c13_twin_reach")])],
    thorough=lambda seed: [dict(harnesses=names("c13", ["c13_slice_u8", "c13_slice_u32", "c13_slice_deep", "c13_struct_with_slice", "c13_seriter", "c13_serialize_flush", "c13_schema_flush", "c13_schema_fail_k0", "c13_schema_fail_k8", "c13_schema_fail_k30", "c13_schema_fail_k40", "c13_schema_fail_k43",
                                                          "c13_short_writes_u32", "c13_owned_u64", "c13_owned_vecu32", "c13_owned_str", "c13_owned_vecvec", "c13_owned_deeps",
                                                          "c13_owned_zeros", "c13_owned_e5", "c13_owned_optvec", "c13_owned_arrstr"],
                                                bound="failure position symbolic in 0..=N, values symbolic", covers="none") + [twin("c13::c13_twin_reach")], timeout=1800)],
    bounds={"fail_at": "every position 0..=stream length (symbolic)", "short_writes": "<= 6 write calls on a 4-byte value: symbolic short counts, Interrupted, Ok(0)"},
    outside=["BufWriter<File>, /dev/full, real ENOSPC (FFI)", "io::Error kinds other than Interrupted / WriteZero"],
    stubs=["Faulty<N>: WriteNoStd failing at a symbolic position / on flush", "ShortW<N>: io::Write with symbolic short counts"], assumptions=[])

C15_ALL = ["c15_option_u8_full", "c15_option_u8_eps", "c15_option_u8_eps_tag_only", "c15_option_vec_eps", "c15_bound_u32_full", "c15_bound_u32_eps",
           "c15_controlflow_full", "c15_controlflow_eps", "c15_en_u8_full", "c15_en_u8_eps", "c15_e1_full", "c15_e1_eps", "c15_e2_full", "c15_e2_eps",
           "c15_e5_full", "c15_e5_eps"]
C15_TAGONLY = ["c15_tagonly_option_u32_full", "c15_tagonly_option_u32_eps", "c15_tagonly_bound_u32_full", "c15_tagonly_bound_u32_eps", "c15_tagonly_bound_vec_eps", "c15_tagonly_cf_full", "c15_tagonly_cf_eps",
               "c15_tagonly_en_u8_full", "c15_tagonly_en_u8_eps", "c15_tagonly_e1_full", "c15_tagonly_e2_eps"]
_c15_to = lambda: names("c15", C15_TAGONLY, bound="every foreign tag value (all byte values / all usize values that no variant writes); the stream ends right after the tag", what="Err(InvalidTag(tag)) exactly: the tag is validated before the payload is touched")
PLAN["C15"] = dict(
    quick=lambda seed: [dict(harnesses=names("c15", C15_ALL, bound="all 256 one-byte tags / all 2^64 pointer-width tags, payload symbolic",
                                             what="Ok(variant) iff tag is the one the real serializer writes for it, else InvalidTag(tag)") + _c15_to() + [twin("c15::c15_twin_reach")])],
    thorough=lambda seed: [dict(harnesses=names("c15", C15_ALL, bound="all tags, payload symbolic", what="tag oracle") + _c15_to() + [twin("c15::c15_twin_reach")], timeout=1800)],
    bounds={"tags": "all 256 byte values (Option, Bound, ControlFlow); all 2^64 usize values (derived enums En, E1, E2; E5: written tag or any foreign value)"},
    outside=["a valid tag of a *different* variant placed before a payload (payload misinterpretation, not a tag property)", "derived enums outside the universe"],
    stubs=["Sink", "Al"], assumptions=[])

C16_QUICK_SKIP = {"c16_hdr_nested"}
C16_ALL = ["c16_sertype_nested", "c16_hdr_u16", "c16_hdr_u64", "c16_hdr_zeros", "c16_inner_u8_p0", "c16_inner_u16_p1", "c16_inner_u64_p3", "c16_inner_u128_p5", "c16_inner_zeros_p2",
           "c16_inner_unit_p0", "c16_inner_slice_deep", "c16_hdr_nested", "c16_deser_as_vec", "c16_lying_u16", "c16_lying_u64"]
PLAN["C16"] = dict(
    quick=lambda seed: [dict(harnesses=names("c16", [c for c in C16_ALL if c not in C16_QUICK_SKIP], bound="items symbolic, len <= 3; (announced, actual) in 0..=4 x 0..=4", covers="none") + [twin("c16::c16_twin_reach")], timeout=900)],
    thorough=lambda seed: [dict(harnesses=names("c16", C16_ALL, bound="items symbolic, len <= 3", covers="none") + [twin("c16::c16_twin_reach")], timeout=2400)],
    bounds={"len": "<= 3", "lying": "announced, actual <= 4"}, outside=["longer sequences", "iterators with side effects"],
    stubs=["Sink", "Al", "Exact", "Liar: ExactSizeIterator with symbolic announced/actual lengths"], assumptions=[])


def c19_grid():
    import re, os
    src = open(os.path.join(os.path.dirname(os.path.dirname(os.path.abspath(__file__))), "harness", "src", "c19_grid.rs")).read()
    return re.findall(r"^\s+(c19_[wr]_a\d+_l\d+_p\d+_n\d+):", src, re.M)


def c19_jobs(tier):
    g = c19_grid()
    if tier == "quick":
        keep = []
        for n in g:
            m = __import__("re").match(r"c19_([wr])_a(\d+)_l(\d+)_p(\d+)_n(\d+)", n)
            k, a, l, p, w = m.group(1), int(m.group(2)), int(m.group(3)), int(m.group(4)), int(m.group(5))
            if a == 64:
                if w == 2 and l in (1, 64) :
                    keep.append(n)
            elif l in (0, 15, 17, 32) and w in (0, 2, 17) and p in (0, l, l + 1, 16, 33):
                keep.append(n)
        g = keep
    hs = names("c19", ["c19_seek_empty_a16", "c19_seek_len5_a16", "c19_seek_len17_a64"], bound="all pos: usize x all SeekFrom (u64/i64)", what="seek vs std::io::Cursor")
    hs += names("c19", g, bound="(len,pos,n) grid point, byte contents symbolic", what="one write/read step vs the real std::io::Cursor + representation invariant", covers="none")
    hs += names("c19", ["c19_history_p1", "c19_history_p3", "c19_history_p17"], bound="write 3, set_position P, write 2, seek End(-8..8 symbolic), read 4", what="short history vs std", covers="none")
    hs += [twin("c19::c19_twin_reach")]
    return [dict(harnesses=hs, timeout=600 if tier == "quick" else 1800)]


PLAN["C19"] = dict(quick=lambda seed: c19_jobs("quick"), thorough=lambda seed: c19_jobs("thorough"),
                   bounds={"grid": "len in {0,1,15,16,17,31,32,33}, pos in {0,1,len-1,len,len+1,15,16,17,31,32,33,40}, n in {0,1,2,16,17}; A64: len in {0,1,63,64,65}",
                           "seek": "no bound: all 2^64 positions x all SeekFrom"},
                   outside=["positions near usize::MAX (std aborts on capacity overflow)", "states larger than 57 bytes", "histories longer than 3 steps"],
                   stubs=[], assumptions=["std::io::Cursor<Vec<u8>> run on the same inputs inside the harness is the reference"])

import json as _json, os as _os
_HERE = _os.path.dirname(_os.path.abspath(__file__))


def _src(mod):
    return open(_os.path.join(_os.path.dirname(_HERE), "harness", "src", mod)).read()


def _fns(mod, pat):
    import re
    return re.findall(pat, _src(mod), re.M)


# ---- C04 ---------------------------------------------------------------------------------
C04_WORDS = _fns("c04.rs", r"\b(c04_words_\w+):")
C04_TABLES = ["c04_table_struct_mutants", "c04_table_layout_mutants", "c04_table_generic_mutants", "c04_table_enum_mutants", "c04_table_interchangeable"]
C04_CROSS = _fns("c04.rs", r"\b(c04_cross_\w+):")
# exceed 24 GB (Option<u8>: 63-byte stream with long type names, as in C10; the two enum pairs likewise): not run, listed under outside
C04_HEAVY = {"c04_words_optu8_eps", "c04_words_optu8_full", "c04_cross_enum_order_full", "c04_cross_enum_rename_eps"}
C04_WORDS = [n for n in C04_WORDS if n not in C04_HEAVY]
C04_CROSS = [n for n in C04_CROSS if n not in C04_HEAVY]
PLAN["C04"] = dict(
    quick=lambda seed: [dict(harnesses=names("c04", C04_WORDS[:4], bound="all 2^128 values of the stored type/alignment digest words", what="hash errors by priority, never a value unless both words are the reader's")
                             + names("c04", C04_TABLES, bound="no symbolic input: digests evaluated through the real TypeHash/AlignHash impls with the real xxh3", what="pairwise distinct where the structure differs; equal for the interchangeable trio", covers="none")
                             + names("c04", C04_CROSS[:8], bound="value of T symbolic, read as near-miss U", what="refused with the expected hash error", covers="none")
                             + [twin("c04::c04_twin_reach")], timeout=900)],
    thorough=lambda seed: [dict(harnesses=names("c04", C04_WORDS, bound="all 2^128 digest words", what="hash errors by priority")
                                + names("c04", C04_TABLES, bound="evaluation (no symbolic input)", what="digest tables", covers="none")
                                + names("c06", [f"c06_digests_{i}" for i in range(_C06["digest_chunks"])], bound="evaluation: current digest of every universe type == the recorded one; the recorded type digests are pairwise distinct (asserted by bin/gen_golden.py)", what="universe-wide distinctness of type digests", covers="none")
                                + names("c04", C04_CROSS, bound="value of T symbolic, read as near-miss U", what="refused with the expected hash error", covers="none")
                                + [twin("c04::c04_twin_reach")], timeout=3600)],
    bounds={"stored_digests": "all 2^128 values (solver)", "tables": "universe (106 cases) + 23 near-miss mutants (harness/src/mutants.rs): evaluated, 0 solver variables"},
    outside=["collisions of xxh3 itself", "types and mutants outside the listed universe", "reader types whose stream exceeds 64 bytes for the end-to-end pairs",
             "end-to-end hash-word harnesses for Option<u8> and the two enum near-miss pairs (reordered / renamed variant): CBMC exceeds 24 GB; their digests are still compared in the tables"],
    stubs=["Sink", "Exact", "Al", "core::str::from_utf8 -> env::from_utf8_stub"], assumptions=["the digest-table half is enumeration over a finite universe evaluated inside the model checker; the solver adds nothing there"])

# ---- C06 ---------------------------------------------------------------------------------
_C06 = _json.load(open(_os.path.join(_HERE, "c06_names.json")))


# exceed 24 GB (first full thorough run): not run, listed under outside; the same types are covered by C01/C02 round trips, and
# their digests by the golden tables
C06_TOO_LARGE = ("c06_vecdeeps_s1", "c06_genc", "c06_bothc", "c06_arrstringx2_s3", "c06_arrstringx2_s2", "c06_arrstringx0", "c06_vecoptu8", "c06_boxstring_s5", "c06_vecstring_s5")


def c06_jobs(tier):
    qcases = {r["case"] for r in U.ROWS if r["quick"]} | {"OptU8"}
    hs = []
    for nm, case, sh, fn in _C06["instances"]:
        if nm in C06_TOO_LARGE:
            continue
        row = U.BY.get(case, dict(qshapes=[0], ty=case))
        if tier == "quick" and (case not in qcases or sh not in row["qshapes"]):
            continue
        hs.append(H("c06::" + nm, bound=f"{row.get('ty', case)}: all values, shape {sh}; header + value",
                    what=("bytes == reference encoder with golden digests; reference bytes read back in both modes" if fn == "conform" else "bytes == reference encoder with golden digests (stream > 64 B: no read-back)"),
                    role=f"c06/{case}"))
    dig = [f"c06_digests_{i}" for i in range(_C06["digest_chunks"])] + [f"c06_digests_mutants_{i}" for i in range(_C06["mutant_chunks"])]
    if tier == "quick":
        dig = dig[::3]
    hs += names("c06", dig, bound="evaluation: current digests vs digests recorded from the pinned build (6 types per harness)", what="golden digests", covers="none")
    corp = _C06["corpus"] if tier == "thorough" else _C06["corpus"][::3]
    hs += names("c06", ["c06_corpus_" + c for c in corp], bound="evaluation on a file written by the pinned build", what="decodes to the recorded value in both modes", covers="none")
    hs += [twin("c06::c06_twin_reach")]
    return [dict(harnesses=hs, timeout=900 if tier == "quick" else 2400, jobs=8)]


PLAN["C06"] = dict(quick=lambda seed: c06_jobs("quick"), thorough=lambda seed: c06_jobs("thorough"),
                   bounds=dict(RT_BOUNDS, golden="digests of 107 universe types + 25 mutant/extra types and 43 corpus files recorded from the pinned build 709c463"),
                   outside=COMMON_OUTSIDE + ["byte-for-byte conformance harnesses " + ", ".join(C06_TOO_LARGE) + " (CBMC exceeds 24 GB)", "padding bytes inside zero-copy structs (uninitialised in the source value): don't-care", "zero-copy enums (ZE) and the 12-tuple: no reference image written", "read-back of reference bytes only for streams <= 64 bytes"],
                   stubs=RT_STUBS + ["refenc.rs: independent reference encoder of format 1.1", "golden.rs: digests recorded from the pinned build"], assumptions=["the golden files in /verif/harness/golden are the pinned build's output"])

# ---- C05 ---------------------------------------------------------------------------------
DERIVED = ["DeepSVec", "DeepSStr", "DeepSU32", "MentionU16", "BothC", "GenC", "TupSC", "UnitSC", "DeepPrimsC", "HoldZUnit", "HoldZAl4", "HoldZeroS",
           "ZeroSC", "ZTailC", "ZAl32C", "ZGenU32", "ZNestC", "ZConst3", "ZEC", "ZUnitC", "ZAl4C", "EnU8", "EnVec", "E1C", "E2C", "E5C", "OptZeroS", "VecDeepS",
           "VecZeroS", "VecZE", "ArrZeroSx2"]


def c05_jobs(tier):
    rows = [U.BY[c] for c in DERIVED]
    hs = []
    for fam, what in (("c01", "derived code: full-copy round trip"), ("c02", "derived code: eps == original under the substitution (DeserType asserted at type level) and == full")):
        for row in rows:
            if tier == "quick" and not row["quick"] and row["case"] not in ("MentionU16", "GenC", "ZGenU32", "E1C", "ZConst3", "TupSC"):
                continue
            pres = [0] if tier == "quick" else U.residues(row, "quick")
            for pre in pres:
                for sh in U.shapes(row, tier):
                    if (fam, row["case"], sh) in RT_TOO_LARGE:
                        continue
                    hs.append(H("inst::" + U.inst_name(fam, row["case"], pre, sh), bound=f"{row['ty']}: all values, residue {pre}, shape {sh}", what=what, role=f"c05/{fam}/{row['case']}"))
    hs += names("c05", _fns("c05.rs", r"^pub fn (c05_\w+)\(\)"), bound="grammar corner: all values", what="derived code compiles and round-trips in both modes", covers="none")
    hs += [twin("c01::c01_twin_reach")]
    return [dict(harnesses=hs, timeout=900 if tier == "quick" else 2400)]


def c05_generated(seed, count=14):
    """Seeded sample of the derive grammar (bin/gen_types.py): definitions + harnesses written into the work area."""
    import subprocess, sys
    work = _os.environ.get("VERIF_WORK", _os.path.join(_os.path.dirname(_HERE), ".work"))
    gd = _os.path.join(work, "C05-gen")
    _os.makedirs(gd, exist_ok=True)
    rs, js = _os.path.join(gd, f"gen_{seed}.rs"), _os.path.join(gd, f"gen_{seed}.json")
    subprocess.check_call([sys.executable, _os.path.join(_HERE, "gen_types.py"), str(seed), str(count), rs, js], stdout=subprocess.DEVNULL)
    hs = _json.load(open(js))["harnesses"]
    # sampled definitions: one that is too large for CBMC (memory cap / time-out) is recorded as "not decided" in the evidence and
    # does not make the check inconclusive - the sample, not the machinery, decided its size; every other outcome counts as usual
    return dict(tag="gen", env={"VH_GEN_FILE": rs}, timeout=1200, undecided_ok=True,
                harnesses=[H("c05gen::" + h, bound=f"generated definition (seed {seed}): all field values, every variant", what="derived code compiles and round-trips; DeserType ascribed", role="c05/generated", covers="all") for h in hs])


def c05_thorough(seed):
    return c05_jobs("thorough") + [c05_generated(seed)]


PLAN["C05"] = dict(quick=lambda seed: c05_jobs("quick"), thorough=c05_thorough,
                   bounds=dict(RT_BOUNDS, definitions="31 derived definitions of harness/src/universe.rs + the grammar corners of c05.rs (compiled by the Kani build on every run: compilation success is observed); thorough adds 14 definitions SAMPLED from the grammar by bin/gen_types.py with VERIF_SEED"),
                   outside=["every definition not listed; macro robustness on unsupported syntax", "a where-clause bound on a *replaced* type parameter and a parameter that is both a field type and mentioned inside another field's type are rejected by rustc (grammar boundary, compile-time, see DESIGN.md)"],
                   stubs=RT_STUBS, assumptions=["the exact DeserType is asserted at type level in cases.rs (`let e: &DeepS<&[u16]> = e;`): a wrong substitution is a build failure of the harness crate, reported as inconclusive build error with the compiler message"])

# ---- C08 / C09 ----------------------------------------------------------------------------
FS_STUBS = ["anyhow blanket From<E> -> harness stub (consumes the error, returns an anyhow::Error; the dyn-Error introspection of the real conversion is not tractable)", "std::io::BufReader::new / BufWriter::new -> with_capacity(64)", "<Global as Allocator>::deallocate / std::alloc::dealloc -> counting stub freeing through CBMC's free", "std::io::Error::is_interrupted -> false",
            "std::path::Path::metadata -> Ok(zeroed Metadata)", "std::fs::Metadata::len -> length of the in-memory file", "std::fs::File::open/create -> File::from_raw_fd(3|4)",
            "<File as Read>::read -> copies from the in-memory file image, whole request", "<File as Write>::write/flush -> appends to an in-memory output buffer",
            "<OwnedFd as Drop>::drop -> no-op", "std::backtrace::Backtrace::capture -> Backtrace::disabled()",
            "std::alloc::alloc -> CBMC malloc + fill 0xAA + record (ptr, size, align) of over-aligned blocks", "core::str::from_utf8 -> env::from_utf8_stub"]
C08_MEM = ["c08_load_mem_u32", "c08_load_mem_u32_trail5", "c08_load_mem_tup2", "c08_load_mem_zeros", "c08_load_mem_arru32x1", "c08_load_mem_u64_trail8", "c08_overaligned_refused"]
C08_REST = ["c08_load_full_u32", "c08_load_full_tup2", "c08_store_u32", "c08_store_tup2"]
PLAN["C08"] = dict(
    quick=lambda seed: [dict(cfg="nommap", harnesses=names("c08", C08_MEM[:4] + C08_REST[:1] + C08_REST[2:3] + ["c08_overaligned_refused"], bound="file = real serialization of a symbolic value (+ trailing bytes); fs stubs", what="load_mem/load_full/store vs the serialized bytes; region aligned, rounded, zero tail, borrows inside, move/box", covers="none")
                             + [twin("c08::c08_twin_reach")], timeout=900)],
    thorough=lambda seed: [dict(cfg="nommap", harnesses=names("c08", C08_MEM + C08_REST + [], bound="file = real serialization of a symbolic value; fs stubs", what="load_mem/load_full/store", covers="none") + [twin("c08::c08_twin_reach")], timeout=2400)],
    bounds={"files": "<= 64 bytes; reader types u32, u64, (u16,u16), [u32;1], ZeroS (derived zero-copy struct: borrowed reference inside the region); trailing bytes 0, 5, 20", "features": "no-mmap build only"},
    outside=["load_mmap, mmap and the 8 flag sets (mmap/madvise/mprotect FFI inside mmap-rs: a stub would be the property)", "cross-thread reads (Send/Sync impls): Kani has no concurrency",
             "the default-features build: since the error paths of the loaders drop the backend in place, the drop glue of the Mmap variant (all of mmap-rs) is reachable from load_mem and CBMC exceeds 12 GB; load_mem/load_full/store contain no cfg-dependent code, the mmap feature only adds the enum variant and the two mmap loaders",
             "page-size effects, real file systems, short reads of a real file (C14 covers read_exact)", "files larger than 64 bytes: in particular every sequence type (their type names alone exceed the budget), so borrowed slices inside the region are covered only through zero-copy references (&ZeroS, &(u16,u16), &[u32;1])"],
    stubs=FS_STUBS, assumptions=["every stub of fsenv.rs"])
C09_ALL = ["c09_release_u32", "c09_release_tup2", "c09_release_arr", "c09_fail_wrong_type", "c09_fail_wrong_type_zero", "c09_fail_truncated", "c09_fail_bad_magic", "c09_fail_bad_tag",
           "c09_escape_deref", "c09_escape_asref", "c09_scoped_use", "c09_eps_scope"]
C09_BAL = ["c09_eps_balance_cut20", "c09_eps_balance_tag26", "c09_eps_balance_tag16"]
_c09_bal = lambda: [H("c09::" + n, bound="Vec<Vec<Option<u8>>> = [[Some(a)],[Some(b),None]], payload symbolic; stream cut at byte 20 / invalid tag (every value >= 2) at byte 26 or 16", what="failed eps deserialization: allocator calls == releases (parts already built are released)", role="eps/" + n[4:]) for n in C09_BAL] + [twin("c09::c09_eps_balance_twin")]
PLAN["C09"] = dict(
    quick=lambda seed: [dict(cfg="nommap", harnesses=[H("c09::" + n, bound="load_mem under fs stubs, no-mmap build; file contents symbolic", what="release exactly once / no leak on failure / no use after release through safe code", covers="none", role="load_mem/" + n[4:]) for n in C09_ALL]
                             + _c09_bal() + [twin("c09::c09_twin_reach")], timeout=900)],
    thorough=lambda seed: [dict(cfg="nommap", harnesses=[H("c09::" + n, bound="load_mem under fs stubs, no-mmap build", what="lifetime of the backing memory", covers="none", role="load_mem/" + n[4:]) for n in C09_ALL] + _c09_bal() + [twin("c09::c09_twin_reach")], timeout=2400)],
    bounds={"loader": "load_mem only", "failure_causes": "wrong type (2 pairs), truncated file, corrupt magic, corrupt variant tag"},
    outside=["I/O errors while reading the file inside load_mem (harnesses c09_fail_read_io / c09_fail_read_error exist but are not tractable: after the failed read_exact CBMC walks infeasible continuations through anyhow/Backtrace drop glue, > 15 min, no verdict) - a double free or leak that only occurs on that path is NOT detected by this check",
             "the borrow-checker half (programs that must be REJECTED by rustc): a type-check verdict is not a solver query; only the accept-side programs are compiled here",
             "load_mmap / mmap regions (mmap-rs objects, FFI); /proc/self/maps and real allocator accounting"],
    stubs=FS_STUBS, assumptions=["kani::mem::can_dereference on the block recorded by the alloc stub decides allocated / released"])

# ---- C11 / C14 -----------------------------------------------------------------------------
# failed checks that the statement of C11 allows for ε-copy of a truncated stream: bounds-check panics in /repo's safe slice code
C11_ALLOW = [r"core::slice::index::", r"index out of bounds", r"core::panicking::panic_bounds_check", r"slice_index_fail",
             r"Result::<.*TryFromSliceError>::unwrap|unwrap_failed"]
C11_FULL = _fns("c11.rs", r"\b(c11_full_\w+) =")
C11_IO = [n for n in _fns("c11.rs", r"\b(c11_io_\w+) =") if n != "c11_io_vecvec_p1"]  # > 24 GB in the thorough run
C11_EPS = _fns("c11.rs", r"\b(c11_eps_\w+) =")
C11_EXACT = _fns("c11.rs", r"\b(c11_exact_\w+) =")
C11_CUT = _fns("c11_cuts.rs", r"\b(c11_call_\w+) =")
C11_HDRK = _fns("c11_cuts.rs", r"\b(c11_hdrk_\w+) =")


def c11_jobs(tier):
    q = tier == "quick"
    full = C11_FULL[:8] if q else C11_FULL
    eps = C11_EPS[:9] if q else C11_EPS
    ex = C11_EXACT[:4] if q else C11_EXACT
    pick = lambda n: any(n.endswith(sfx % k) for sfx in ("_k%d", "_j%d") for k in (0, 2, 5, 8, 12, 13, 20, 29, 37, 40, 43))
    cut = [c for c in C11_CUT if pick(c)] if q else C11_CUT
    hdr = [c for c in C11_HDRK if "_u32_" in c and pick(c)] if q else C11_HDRK
    io = C11_IO[:4] if q else C11_IO
    hs = names("c11", full, bound="every cut point k < len (symbolic), values symbolic", what="Err(ReadError), never a value")
    hs += names("c11", cut + [h for h in hdr if "_full_" in h], bound="truncation point (byte K for the public entry points, request J for deep types) is an instance constant; every K/J in thorough; values symbolic", what="Err(ReadError), never a value (deep types / public entry points with header)", covers="none")
    hs += names("c11", io, bound="every cut point k in [PRE, len) (symbolic) incl. inside (trailing) alignment padding; reader = byte slice through the blanket io::Read impl", what="Err(ReadError), never a value")
    hs += [H("c11::" + n, bound="every cut point k < len (symbolic), values symbolic", what="never a value; only bounds-check panics tolerated", allow=C11_ALLOW, covers="none") for n in eps + [h for h in hdr if "_eps_" in h]]
    hs += [H("c11::" + n, bound="exact-size heap copy of the prefix (K bytes): any read outside it is a pointer-check failure", what="never a value, no out-of-object access", allow=C11_ALLOW, covers="none") for n in ex]
    hs += [twin("c11::c11_twin_reach")]
    # the header-cut harnesses peaked between 6 and 13 GB in different builds of the same source: generous cap, fewer parallel jobs
    return [dict(harnesses=hs, timeout=900 if q else 2400, mem_gb=24, jobs=10)]


PLAN["C11"] = dict(quick=lambda seed: c11_jobs("quick"), thorough=lambda seed: c11_jobs("thorough"),
                   bounds=dict(RT_BOUNDS, cut="every k in [0, len) as a solver variable; exact-object variants at listed K"),
                   outside=COMMON_OUTSIDE + ["truncation inside Vec<String>, Box<[String]>, [String;2], Vec<DeepS<_>> and header truncation for reader types with type names longer than 4 characters: CBMC walks the infeasible Ok-continuation after a failed read (DESIGN.md fact 15) and exceeds 12 GB", "io::Read truncation of Vec<Vec<u16>> at residue 1 (c11_io_vecvec_p1: > 24 GB; residue 0 is run)", "load_full / mmap of a truncated file (load_full reduces to deserialize_full over BufReader<File>: covered at the ReadNoStd boundary; mmap is FFI)", "corruption (as opposed to truncation) of length words"],
                   stubs=RT_STUBS, assumptions=["for ε-copy the property allows an error or a bounds-check panic: failed checks whose function/description is a slice-index or bounds-check panic are tolerated, every other failed check (pointer, arithmetic, other panics, the Ok assertion) is a violation"])

C14_FAIL = _fns("c14.rs", r"\b(c14_fail_\w+):")
C14_CALL = _fns("c14_calls.rs", r"\b(c14_call_\w+):")
# failure at the very first request of Vec<Vec<u16>>: > 24 GB (fact 15: the whole Ok-continuation is walked); J >= 1 are run
C14_CALL = [c for c in C14_CALL if c != "c14_call_vecvec_j0"]
PLAN["C14"] = dict(
    quick=lambda seed: [dict(harnesses=names("c14", C14_FAIL[:9], bound="failure position k in 0..=len (symbolic), values symbolic", what="(A) value == original iff no failure, else ReadError; partial values dropped soundly")
                             + names("c14", [c for c in C14_CALL if c.endswith(("_j1", "_j4", "_j10"))], bound="reader fails at its J-th read_exact call (instance constant); values symbolic", what="(A') deep types: value iff no failure, else ReadError; partial values dropped soundly", covers="none")
                             + names("c14", ["c14_std_read_exact_4", "c14_chunky_u32"], bound="<= 6 read calls: symbolic chunk sizes, Interrupted, early EOF", what="(B)/(C) fragmentation does not change the bytes/value; early EOF is ReadError")
                             + [twin("c14::c14_twin_reach")], timeout=900)],
    thorough=lambda seed: [dict(harnesses=names("c14", C14_FAIL, bound="failure position symbolic", what="(A)") + names("c14", C14_CALL, bound="reader fails at its J-th call, every J", what="(A') deep types", covers="none") + names("c14", ["c14_std_read_exact_4", "c14_std_read_exact_8", "c14_chunky_u32", "c14_chunky_optu8"], bound="<= 6 read calls", what="(B)/(C)")
                                + [twin("c14::c14_twin_reach")], timeout=2400)],
    bounds=dict(RT_BOUNDS, fail_at="every k in 0..=len", fragmentation="requests <= 8 bytes, <= 6 read calls per harness"),
    outside=COMMON_OUTSIDE + ["reader failure inside Vec<String>, Box<[String]>, [String;2], Vec<DeepS<_>> and at the very first request of Vec<Vec<u16>> (DESIGN.md fact 15; the first-request failure is covered for flat types by the symbolic position); [Vec<u16>;2] and Vec<Vec<u16>> stand in for deep items with drop glue", "fragmentation of long streams in one query (decomposed at the ReadNoStd trait boundary: (A)+(B) compose because the deserializers call the reader only through read_exact - an argument, not a solver result)", "[T;N] deep arrays leak already-built items on mid-array failure (leak, not corruption)"],
    stubs=RT_STUBS + ["Exact::failing: ReadNoStd failing at a symbolic position", "Chunky: io::Read with symbolic chunk sizes / Interrupted / early EOF"], assumptions=[])

# ---- C17 / C18 -------------------------------------------------------------------------------
C17_RT = ["c17_value", "c17_slice_helper", "c17_vec", "c17_boxed_slice", "c17_array", "c17_slice_ref", "c17_seriter", "c17_toplevel"]
C17_PROBES = [
    dict(feature="p_deep_field", expect="reject", diag=r"ZeroCopy|CopyType|is not satisfied|type mismatch", what="zero-copy struct with a deep-copy (but Copy) field"),
    dict(feature="p_ref_field", expect="reject", diag=r"ZeroCopy|CopyType|is not satisfied|type mismatch|lifetime", what="zero-copy struct holding a &'static [u8]"),
    dict(feature="p_vec_field", expect="reject", diag=r"ZeroCopy|CopyType|Copy|is not satisfied|type mismatch", what="zero-copy struct with a Vec field"),
    dict(feature="p_string_field", expect="reject", diag=r"ZeroCopy|CopyType|Copy|is not satisfied|type mismatch", what="zero-copy struct with a String field"),
    dict(feature="p_boxslice_field", expect="reject", diag=r"ZeroCopy|CopyType|Copy|is not satisfied|type mismatch", what="zero-copy struct with a Box<[T]> field"),
    dict(feature="p_no_repr_c", expect="reject", diag=r"not repr\(C\)|proc-macro derive panicked", what="zero_copy without repr(C)"),
    dict(feature="p_repr_align_only", expect="reject", diag=r"not repr\(C\)|proc-macro derive panicked", what="zero_copy with repr(align(8)) only (default Rust layout)"),
    dict(feature="p_repr_packed_only", expect="reject", diag=r"not repr\(C\)|proc-macro derive panicked", what="zero_copy with repr(packed) only"),
    dict(feature="p_repr_packed2_only", expect="reject", diag=r"not repr\(C\)|proc-macro derive panicked", what="zero_copy with repr(packed(2)) only"),
    dict(feature="p_both_attrs", expect="reject", diag=r"both zero copy and deep copy|proc-macro derive panicked", what="zero_copy and deep_copy together"),
    dict(feature="p_nested_bad", expect="reject", diag=r"ZeroCopy|CopyType|is not satisfied|type mismatch", what="vector of a wrongly declared zero-copy struct"),
    dict(feature="p_enum_deep_before_tuple", expect="reject", diag=r"ZeroCopy|CopyType|is not satisfied|type mismatch", what="zero-copy enum: deep field in a variant declared before a tuple variant"),
    dict(feature="p_enum_deep_last", expect="reject", diag=r"ZeroCopy|CopyType|is not satisfied|type mismatch", what="zero-copy enum: deep field in the last variant"),
    dict(feature="p_enum_deep_struct_variant", expect="reject", diag=r"ZeroCopy|CopyType|is not satisfied|type mismatch", what="zero-copy enum: deep field in a struct variant between other variants"),
    dict(feature="ok_control", expect="accept", diag="", what="control: a valid zero-copy definition compiles and reaches the writer"),
]
PLAN["C17"] = dict(
    quick=lambda seed: [dict(harnesses=[H("c17::" + n, bound="impostor value symbolic; slice length <= 2", what="only failed check = panic in check_zero_copy; writer and end of harness unreachable",
                                          allow=[r"check_zero_copy"], must_fail_allowed=True, covers="none") for n in C17_RT]
                             + [H("c17::c17_twin_reach", expect="fail", covers="none", what="twin: a correctly declared type reaches the writer")]),
                        dict(kind="c17probe", probes=C17_PROBES)],
    thorough=lambda seed: [dict(harnesses=[H("c17::" + n, bound="impostor value symbolic", what="panic before any byte", allow=[r"check_zero_copy"], must_fail_allowed=True, covers="none") for n in C17_RT]
                                + [H("c17::c17_twin_reach", expect="fail", covers="none", what="twin")]),
                           dict(kind="c17probe", probes=C17_PROBES)],
    bounds={"definitions": "11 wrong declarations (probes/c17: 8 structs, 3 zero-copy enums) + a hand-written impostor through 8 raw-memory writers"},
    outside=["definitions not listed", "the compile-time layer is a compiler verdict observed inside the Kani build (trait-bound error or derive panic), not a solver verdict; the solver decides the run-time layer and any probe that does compile"],
    stubs=["Tripwire: WriteNoStd whose write_all is an assert!(false)"], assumptions=[])

C18_ALL = _fns("c18.rs", r"^\s+(c18_\w+) @")
def _c18_jobs(hs, timeout, per=8):
    # kani-driver keeps the CBMC output of every harness of one invocation in memory (47 GB for the 25 harnesses of the
    # thorough tier, killed by the kernel): at most `per` harnesses per invocation (about 4.6 GB of driver memory per harness:
    # 8 harnesses = 37 GB measured; the quick tier is one invocation of 8, 550 s), 5 CBMC processes in parallel
    return [dict(harnesses=hs[i:i + per], timeout=timeout, jobs=5, tag=str(i // per)) for i in range(0, len(hs), per)]


PLAN["C18"] = dict(
    quick=lambda seed: _c18_jobs(names("c18", ["c18_zeros_p1", "c18_deeps_some", "c18_vecu128_p0", "c18_zal32_p8", "c18_esingle_p0", "c18_arr_u64x0_p1", "c18_toplevel_u32"], bound="concrete shape, field values symbolic, start residue per instance", what="bytes equal plain serialization; rows pre-order/in-stream/tiling/zero padding/aligned; debug() and to_csv() run", covers="none")
                              + [twin("c18::c18_twin_reach")], 900),
    thorough=lambda seed: _c18_jobs(names("c18", C18_ALL + ["c18_toplevel_u32"], bound="concrete shape, field values symbolic", what="schema rows vs bytes", covers="none") + [twin("c18::c18_twin_reach")], 2400),
    bounds={"shapes": "23 concrete shapes incl. 16- and 32-aligned blocks at gaps of 8/16/24/1 bytes, zero-sized fields, zero-sized types that still write bytes (single-variant enum, [u64;0] behind a gap), empty sequences, nested composites, header rows (top level u32)"},
    outside=["value-dependent shapes explored symbolically (CBMC runs out of memory)", "the rendered text (alloc::fmt::format is stubbed)", "shapes not listed"],
    stubs=["alloc::fmt::format -> String::new()", "Sink"], assumptions=[])
