"""Which harnesses decide which property, per tier (see DESIGN.md §5)."""


def H(name, **kw):
    d = dict(name=name)
    d.update(kw)
    return d


def twin(name, **kw):
    return H(name, expect="fail", covers="none", what="reachability twin: final assertion must be violated", **kw)


PLAN = {}

PLAN["C07"] = dict(
    quick=[dict(harnesses=[
        H("c07::c07_pad_formula", bound="all v: usize x all 64 power-of-two units", what="pad_align_to: multiple, < unit, minimal"),
        twin("c07::c07_twin_reach"),
    ])],
    thorough=[dict(harnesses=[
        H("c07::c07_pad_formula", bound="all v: usize x all 64 power-of-two units", what="pad_align_to: multiple, < unit, minimal"),
        twin("c07::c07_twin_reach"),
    ])],
    bounds={}, outside=[], stubs=[], assumptions=[],
)

PLAN["C19"] = dict(
    quick=[dict(harnesses=[
        H("c19::c19_seek_empty_a16", bound="all pos: usize x all SeekFrom (u64/i64), empty storage", what="seek vs std::io::Cursor"),
    ])],
    thorough=[dict(harnesses=[
        H("c19::c19_seek_empty_a16", bound="all pos: usize x all SeekFrom (u64/i64), empty storage", what="seek vs std::io::Cursor"),
    ])],
    bounds={}, outside=[], stubs=[], assumptions=[],
)

PLAN["SELFTEST"] = dict(
    quick=[dict(harnesses=[
        H("selftest::st_fail_assert"), H("selftest::st_unwind_small"), H("selftest::st_vacuous_cover"), H("selftest::st_oob_read"),
    ])],
    thorough=[], bounds={}, outside=[], stubs=[], assumptions=[],
)
