// Copies the seeded, generated C05 definitions (path in $VH_GEN_FILE, written by
// bin/gen_types.py for the thorough tier) into OUT_DIR; an empty module otherwise.
use std::{env, fs, path::Path};
fn main() {
    println!("cargo:rerun-if-env-changed=VH_GEN_FILE");
    let out = Path::new(&env::var("OUT_DIR").unwrap()).join("c05_gen.rs");
    match env::var("VH_GEN_FILE") {
        Ok(p) if !p.is_empty() => {
            println!("cargo:rerun-if-changed={}", p);
            fs::copy(&p, &out).expect("copy generated definitions");
        }
        _ => fs::write(&out, "// no generated definitions in this build\n").unwrap(),
    }
}
