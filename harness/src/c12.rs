//! C12 — misplaced buffers.  The listed instances are generated into inst.rs
//! (`i_c12_*`, body `rt::misplaced`, base residue symbolic in 0..128).
use crate::env::*;
use crate::sym::{any, assume};
use epserde::deser::{DeserializeInner, SliceWithPos};

/// Byte-aligned data deserializes at any address (and this twin claims the
/// opposite for 4-byte data, so it must FAIL).
#[cfg_attr(kani, kani::proof)]
#[cfg_attr(kani, kani::unwind(4))]
pub fn c12_twin_reach() {
    let mut big = Al::<32>::zero();
    let r: usize = any();
    assume(r < 8);
    big.0[r] = 1; // len = 1 (little endian), then one u32
    let mut sl = SliceWithPos::new(&big.0[r..r + 16]);
    let e = <Vec<u32>>::_deserialize_eps_inner(&mut sl);
    let ok = e.is_ok();
    core::mem::forget(e);
    assert!(ok, "TWIN: must be violated (misplaced 4-byte data is refused)");
}
