//! C18 — the recorded schema describes exactly the bytes that were written.
//! Concrete shapes (row structure is a harness-instance constant), symbolic
//! field values, `alloc::fmt::format` stubbed (the rendered text of `ty` is not
//! the subject).  Checked: (i) bytes via SchemaWriter == bytes via the plain
//! writer; (ii) rows are in pre-order, lie within the stream, children tile
//! their parent, top-level rows tile the stream, PADDING rows cover zero bytes
//! only, `zero` rows start at a multiple of their recorded alignment;
//! (iii) `Schema::debug(&bytes)` and `Schema::to_csv()` run without failing.
use crate::cases::*;
use crate::env::*;
use crate::sym::{self, any, assume, vec_n, string_w};
use crate::universe::*;
use epserde::prelude::*;
use epserde::ser::{Schema, SchemaRow, SchemaWriter, Serialize, SerializeInner, WriteNoStd, WriteWithNames, WriteWithPos, WriterWithPos};

const MAXROWS: usize = 20;

/// What a row must look like, computed by an independent numeric recorder
/// (no strings): kind 0 = composite/primitive row of `write`, 1 = PADDING, 2 = zero-copy block.
#[derive(Clone, Copy)]
pub struct XRow { pub kind: u8, pub depth: usize, pub off: usize, pub size: usize, pub align: usize }
#[derive(Clone, Copy)]
pub struct XLog { pub r: [XRow; MAXROWS], pub n: usize }

/// Recording writer: same delegation structure as rt::Probe, plus a depth
/// counter; produces the expected rows in pre-order.
pub struct Rec<'a, const N: usize> { pub inner: WriterWithPos<'a, Sink<N>>, pub log: XLog, pub depth: usize }
impl<'a, const N: usize> Rec<'a, N> {
    pub fn new(s: &'a mut Sink<N>) -> Self {
        Self { inner: WriterWithPos::new(s), log: XLog { r: [XRow { kind: 0, depth: 0, off: 0, size: 0, align: 0 }; MAXROWS], n: 0 }, depth: 0 }
    }
    fn push(&mut self, r: XRow) -> usize {
        assert!(self.log.n < MAXROWS, "HARNESS: row log too small");
        self.log.r[self.log.n] = r;
        self.log.n += 1;
        self.log.n - 1
    }
}
impl<'a, const N: usize> WriteNoStd for Rec<'a, N> {
    fn write_all(&mut self, b: &[u8]) -> epserde::ser::Result<()> { self.inner.write_all(b) }
    fn flush(&mut self) -> epserde::ser::Result<()> { self.inner.flush() }
}
impl<'a, const N: usize> WriteWithPos for Rec<'a, N> { fn pos(&self) -> usize { self.inner.pos() } }
impl<'a, const N: usize> WriteWithNames for Rec<'a, N> {
    fn align<V: MaxSizeOf>(&mut self) -> epserde::ser::Result<()> {
        let before = self.inner.pos();
        let r = self.inner.align::<V>();
        let after = self.inner.pos();
        if after != before { let d = self.depth; self.push(XRow { kind: 1, depth: d, off: before, size: after - before, align: 1 }); }
        r
    }
    fn write<V: SerializeInner>(&mut self, _n: &str, value: &V) -> epserde::ser::Result<()> {
        let d = self.depth;
        let off = self.inner.pos();
        let i = self.push(XRow { kind: 0, depth: d, off, size: 0, align: 0 });
        self.depth = d + 1;
        let r = value._serialize_inner(self);
        self.depth = d;
        self.log.r[i].size = self.inner.pos() - off;
        r
    }
    fn write_bytes<V: SerializeInner + ZeroCopy>(&mut self, value: &[u8]) -> epserde::ser::Result<()> {
        let d = self.depth;
        let off = self.inner.pos();
        self.push(XRow { kind: 2, depth: d, off, size: value.len(), align: V::max_size_of() });
        self.inner.write_bytes::<V>(value)
    }
}

/// The recorded schema must be, row by row, what the numeric recorder saw; the
/// structural claims (pre-order, in-stream, tiling, zero padding, aligned
/// blocks) are then checked on numbers only.
fn check_rows(rows: &[SchemaRow], x: &XLog, buf: &[u8], start: usize, end: usize) {
    let n = rows.len();
    assert!(n == x.n, "C18: the schema has one row per write / padding / zero-copy block, in pre-order");
    let mut i = 0;
    while i < MAXROWS {
        if i < n {
            let (r, e) = (&rows[i], &x.r[i]);
            assert!(r.offset == e.off && r.size == e.size, "C18: row offset/size describe the bytes that were written for it");
            assert!(r.offset >= start && r.offset + r.size <= end, "C18: every row lies within the stream");
            if e.kind == 2 {
                assert!(r.align == e.align && r.align != 0 && r.offset % r.align == 0, "C18: zero-copy block starts at a multiple of its recorded alignment");
            }
            if e.kind == 1 {
                assert!(r.align == 1, "C18: padding rows have alignment 1");
                let k: usize = any();
                assume(k >= r.offset && k < r.offset + r.size);
                assert!(buf[k] == 0, "C18: padding rows cover only zero bytes");
            }
        }
        i += 1;
    }
    // tiling, one pass with a stack indexed by depth (depth <= MAXDEPTH): when a row opens at depth d
    // it must start where its previous sibling ended (or at its parent's offset if it is the first
    // child), and every deeper level that is still open must have been covered exactly.
    const MAXDEPTH: usize = 8;
    let base = x.r[0].depth;
    let mut cursor = [0usize; MAXDEPTH]; // next expected offset at each depth
    let mut endof = [0usize; MAXDEPTH];  // end of the open row at each depth
    let mut open = [false; MAXDEPTH];    // is a row open at this depth (i.e. may it still get children)?
    let mut haskid = [false; MAXDEPTH];
    cursor[0] = start;
    let mut i = 0;
    while i <= MAXROWS {
        if i <= n {
            // sentinel at i == n: closes everything
            let d = if i < n { x.r[i].depth - base } else { 0 };
            assert!(d < MAXDEPTH, "HARNESS: nesting depth within the checker's capacity");
            // close every open row at depth >= d: its children (if any) must cover it exactly
            let mut k = MAXDEPTH;
            while k > 0 {
                k -= 1;
                if k >= d && open[k] {
                    if haskid[k] {
                        assert!(cursor[k + 1] == endof[k], "C18: children cover their parent exactly");
                    }
                    open[k] = false;
                }
            }
            if i < n {
                assert!(rows[i].offset == cursor[d], "C18: rows tile their parent (and the top level tiles the stream) without gaps or overlaps");
                if d > 0 { haskid[d - 1] = true; }
                cursor[d] = rows[i].offset + rows[i].size;
                endof[d] = rows[i].offset + rows[i].size;
                open[d] = true;
                haskid[d] = false;
                if d + 1 < MAXDEPTH { cursor[d + 1] = rows[i].offset; }
            }
        }
        i += 1;
    }
    assert!(cursor[0] == end, "C18: top-level rows cover the whole stream");
}

/// Inner stream of `x` at start residue PRE, through SchemaWriter and through the plain writer.
fn schema_inner<T: SerializeInner, const N: usize, const PRE: usize>(x: &T) {
    let mut a = Sink::<N>::new();
    let na;
    {
        let mut w = WriterWithPos::new(&mut a);
        w.write_all(&[0xAA; PRE]).unwrap();
        let r = SerializeInner::_serialize_inner(x, &mut w);
        assert!(r.is_ok(), "HARNESS: plain serialization succeeds");
        na = w.pos();
    }
    let mut b = Sink::<N>::new();
    let nb;
    let schema: Schema;
    {
        let mut w = WriterWithPos::new(&mut b);
        w.write_all(&[0xAA; PRE]).unwrap();
        let mut sw = SchemaWriter::new(&mut w);
        let r = WriteWithNames::write(&mut sw, "ROOT", x);
        assert!(r.is_ok(), "C18: serialization with schema recording succeeds");
        nb = sw.pos();
        schema = core::mem::take(&mut sw.schema);
        core::mem::forget(sw);
    }
    assert!(na == nb && a.len == b.len, "C18: schema recording writes the same number of bytes");
    let k: usize = any();
    assume(k < N);
    assert!(a.buf[k] == b.buf[k], "C18: schema recording writes byte-for-byte the same stream");
    let mut c = Sink::<N>::new();
    let xlog;
    {
        let mut rec = Rec::new(&mut c);
        rec.write_all(&[0xAA; PRE]).unwrap();
        let r = WriteWithNames::write(&mut rec, "ROOT", x);
        assert!(r.is_ok(), "HARNESS: recorder run succeeds");
        xlog = rec.log;
    }
    check_rows(&schema.0, &xlog, &b.buf, PRE, nb);
    assert!(schema.0[0].offset == PRE && schema.0[0].size == nb - PRE, "C18: the root row spans the value");
    let csv = schema.to_csv();
    let dbg = schema.debug(&b.buf[..nb]);
    core::mem::forget(csv);
    core::mem::forget(dbg);
    core::mem::forget(schema);
}

/// Zero-sized Rust type that still writes bytes (an 8-byte variant index).
#[derive(epserde::Epserde, Debug, PartialEq, Eq, Clone, Copy)]
pub enum ESingle {
    Only,
}

macro_rules! sc {
    ($($name:ident @ $unw:literal => $body:block);* $(;)?) => {$(
        #[cfg_attr(kani, kani::proof)] #[cfg_attr(kani, kani::unwind($unw))]
        #[cfg_attr(kani, kani::stub(alloc::fmt::format, crate::env::fmt_stub))]
        pub fn $name() $body
    )*};
}
sc!(
    c18_zeros_p0 @ 26 => { let x = ZeroS { a: any(), b: any() }; schema_inner::<_, 32, 0>(&x) };
    c18_zeros_p1 @ 26 => { let x = ZeroS { a: any(), b: any() }; schema_inner::<_, 32, 1>(&x) };
    c18_zeros_p3 @ 26 => { let x = ZeroS { a: any(), b: any() }; schema_inner::<_, 32, 3>(&x) };
    c18_u32_p1 @ 26 => { let x: u32 = any(); schema_inner::<_, 16, 1>(&x) };
    c18_deeps_some @ 26 => { let x = DeepS { id: any::<u16>(), data: vec_n::<u16>(2), tail: Some(any::<u8>()) }; schema_inner::<_, 48, 0>(&x) };
    c18_deeps_none_p1 @ 26 => { let x = DeepS { id: any::<u16>(), data: vec_n::<u16>(1), tail: None::<u8> }; schema_inner::<_, 48, 1>(&x) };
    c18_deeps_empty @ 26 => { let x = DeepS { id: any::<u16>(), data: Vec::<u16>::new(), tail: None::<u8> }; schema_inner::<_, 48, 0>(&x) };
    c18_vecstring @ 26 => { let x: Vec<String> = vec![string_w(1, 0), string_w(2, 1)]; schema_inner::<_, 64, 0>(&x) };
    c18_vecvec @ 26 => { let x: Vec<Vec<u16>> = vec![vec_n::<u16>(1), Vec::new(), vec_n::<u16>(2)]; schema_inner::<_, 64, 3>(&x) };
    c18_hold_zst @ 26 => { let x = Hold { a: any::<u8>(), z: ZAl4, b: any::<u8>() }; schema_inner::<_, 32, 0>(&x) };
    c18_unit_struct @ 26 => { schema_inner::<_, 16, 2>(&UnitS) };
    c18_e5_d @ 26 => { let x: E5<Vec<u8>> = E5::D { a: any(), b: vec_n::<u8>(2) }; schema_inner::<_, 48, 0>(&x) };
    c18_opt_zeros @ 26 => { let x: Option<ZeroS> = Some(ZeroS { a: any(), b: any() }); schema_inner::<_, 32, 0>(&x) };
    c18_arr_string @ 26 => { let x: [String; 2] = [string_w(0, 0), string_w(3, 0)]; schema_inner::<_, 48, 0>(&x) };
    c18_vecu128_p0 @ 26 => { let x: Vec<u128> = vec_n::<u128>(1); schema_inner::<_, 48, 0>(&x) };
    c18_vecu128_p3 @ 26 => { let x: Vec<u128> = vec_n::<u128>(1); schema_inner::<_, 48, 3>(&x) };
    c18_zal32_p8 @ 40 => { let x = ZAl32 { x: any() }; schema_inner::<_, 64, 8>(&x) };
    c18_zal32_p16 @ 40 => { let x = ZAl32 { x: any() }; schema_inner::<_, 64, 16>(&x) };
    c18_zal32_p31 @ 40 => { let x = ZAl32 { x: any() }; schema_inner::<_, 64, 31>(&x) };
    c18_esingle_p0 @ 26 => { schema_inner::<_, 16, 0>(&ESingle::Only) };
    c18_arr_u64x0_p1 @ 26 => { let x: [u64; 0] = []; schema_inner::<_, 16, 1>(&x) };
    c18_hold_esingle @ 26 => { let x = Hold { a: any::<u8>(), z: ESingle::Only, b: any::<u8>() }; schema_inner::<_, 32, 0>(&x) };
    c18_tup3 @ 26 => { let x: (u64, u64, u64) = (any(), any(), any()); schema_inner::<_, 48, 5>(&x) };
);

/// Top level: `serialize_with_schema` (header rows included) vs `serialize`.
#[cfg_attr(kani, kani::proof)] #[cfg_attr(kani, kani::unwind(50))]
#[cfg_attr(kani, kani::stub(alloc::fmt::format, crate::env::fmt_stub))]
pub fn c18_toplevel_u32() {
    let x: u32 = any();
    let mut a = Sink::<64>::new();
    let na = x.serialize(&mut a).unwrap();
    let mut b = Sink::<64>::new();
    let schema = match x.serialize_with_schema(&mut b) { Ok(s) => s, Err(_) => { assert!(false, "C18: serialization with schema recording succeeds"); Schema(Vec::new()) } };
    assert!(a.len == b.len && na == a.len, "C18: schema recording writes the same number of bytes");
    let k: usize = any();
    assume(k < 64);
    assert!(a.buf[k] == b.buf[k], "C18: schema recording writes byte-for-byte the same stream");
    let mut c = Sink::<64>::new();
    let xlog;
    {
        let mut rec = Rec::new(&mut c);
        let r = x.serialize_on_field_write(&mut rec);
        assert!(r.is_ok(), "HARNESS: recorder run succeeds");
        xlog = rec.log;
    }
    check_rows(&schema.0, &xlog, &b.buf, 0, na);
    let csv = schema.to_csv();
    let dbg = schema.debug(&b.buf[..na]);
    core::mem::forget(csv);
    core::mem::forget(dbg);
    core::mem::forget(schema);
}

/// Reachability twin.
#[cfg_attr(kani, kani::proof)] #[cfg_attr(kani, kani::unwind(26))]
#[cfg_attr(kani, kani::stub(alloc::fmt::format, crate::env::fmt_stub))]
pub fn c18_twin_reach() {
    let x = ZeroS { a: any(), b: any() };
    let mut b = Sink::<32>::new();
    let mut w = WriterWithPos::new(&mut b);
    w.write_all(&[0xAA; 1]).unwrap();
    let mut sw = SchemaWriter::new(&mut w);
    WriteWithNames::write(&mut sw, "ROOT", &x).unwrap();
    let n = sw.schema.0.len();
    core::mem::forget(sw);
    assert!(n == 1, "TWIN: must be violated (padding and zero rows exist)");
}
