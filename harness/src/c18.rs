//! C18 — the recorded schema describes exactly the bytes that were written.
//! Concrete shapes (row structure is a harness-instance constant), symbolic
//! field values, `alloc::fmt::format` stubbed (the rendered text of `ty` is not
//! the subject).  Checked: (i) bytes via SchemaWriter == bytes via the plain
//! writer; (ii) rows are in pre-order, lie within the stream, children tile
//! their parent, top-level rows tile the stream, PADDING rows cover zero bytes
//! only, `zero` rows start at a multiple of their recorded alignment;
//! (iii) `Schema::debug(&bytes)` and `Schema::to_csv()` run without failing.
use crate::cases::*;
use crate::env::*;
use crate::sym::{self, any, assume, vec_n, string_w};
use crate::universe::*;
use epserde::prelude::*;
use epserde::ser::{Schema, SchemaRow, SchemaWriter, Serialize, SerializeInner, WriteNoStd, WriteWithNames, WriteWithPos, WriterWithPos};

const MAXROWS: usize = 24;

fn depth_of(field: &str) -> usize {
    let b = field.as_bytes();
    let mut d = 0;
    let mut i = 0;
    while i < b.len() {
        if b[i] == b'.' { d += 1; }
        i += 1;
    }
    d
}
fn is_padding(r: &SchemaRow) -> bool {
    r.field.len() == 7 && r.field.as_bytes()[0] == b'P' && r.field.as_bytes()[6] == b'G' && r.align == 1
}
fn ends_with_zero(r: &SchemaRow) -> bool {
    let b = r.field.as_bytes();
    let n = b.len();
    n >= 5 && b[n - 5] == b'.' && b[n - 4] == b'z' && b[n - 3] == b'e' && b[n - 2] == b'r' && b[n - 1] == b'o'
}

/// Structural check of the rows against the byte stream `buf[start..end]`.
fn check_rows(rows: &[SchemaRow], buf: &[u8], start: usize, end: usize) {
    let n = rows.len();
    assert!(n >= 1 && n <= MAXROWS, "HARNESS: row count within the checker's capacity");
    // depth of each row; a PADDING row is a sibling of the row that follows it
    let mut depth = [0usize; MAXROWS];
    let mut i = n;
    while i > 0 {
        i -= 1;
        depth[i] = if is_padding(&rows[i]) {
            assert!(i + 1 < n, "C18: a padding row is followed by the block it pads");
            depth[i + 1]
        } else {
            depth_of(&rows[i].field)
        };
    }
    let base = depth[0];
    // every row inside the stream; zero rows aligned; padding rows cover zeros
    let mut i = 0;
    while i < n {
        let r = &rows[i];
        assert!(r.offset >= start && r.offset + r.size <= end, "C18: every row lies within the stream");
        assert!(depth[i] >= base, "C18: rows are in pre-order below the first row");
        if ends_with_zero(r) {
            assert!(r.align != 0 && r.offset % r.align == 0, "C18: zero-copy block starts at a multiple of its recorded alignment");
        }
        if is_padding(r) {
            let k: usize = any();
            assume(k >= r.offset && k < r.offset + r.size);
            assert!(buf[k] == 0, "C18: padding rows cover only zero bytes");
        }
        i += 1;
    }
    // tiling: for every depth level, consecutive siblings under the same parent are adjacent,
    // the first child starts at the parent's offset and the last child ends at the parent's end
    let mut i = 0;
    while i < n {
        // children of row i = rows j>i with depth == depth[i]+1 before the next row of depth <= depth[i]
        let mut cursor = rows[i].offset;
        let mut has_child = false;
        let mut j = i + 1;
        while j < n && depth[j] > depth[i] {
            if depth[j] == depth[i] + 1 {
                assert!(rows[j].offset == cursor, "C18: children tile their parent without gaps or overlaps");
                cursor = rows[j].offset + rows[j].size;
                has_child = true;
            }
            j += 1;
        }
        if has_child {
            assert!(cursor == rows[i].offset + rows[i].size, "C18: children cover their parent exactly");
        }
        i += 1;
    }
    // top-level rows tile [start, end)
    let mut cursor = start;
    let mut i = 0;
    while i < n {
        if depth[i] == base {
            assert!(rows[i].offset == cursor, "C18: top-level rows tile the stream");
            cursor = rows[i].offset + rows[i].size;
        }
        i += 1;
    }
    assert!(cursor == end, "C18: top-level rows cover the whole stream");
}

/// Inner stream of `x` at start residue PRE, through SchemaWriter and through the plain writer.
fn schema_inner<T: SerializeInner, const N: usize, const PRE: usize>(x: &T) {
    let mut a = Sink::<N>::new();
    let na;
    {
        let mut w = WriterWithPos::new(&mut a);
        w.write_all(&[0xAA; PRE]).unwrap();
        let r = SerializeInner::_serialize_inner(x, &mut w);
        assert!(r.is_ok(), "HARNESS: plain serialization succeeds");
        na = w.pos();
    }
    let mut b = Sink::<N>::new();
    let nb;
    let schema: Schema;
    {
        let mut w = WriterWithPos::new(&mut b);
        w.write_all(&[0xAA; PRE]).unwrap();
        let mut sw = SchemaWriter::new(&mut w);
        let r = WriteWithNames::write(&mut sw, "ROOT", x);
        assert!(r.is_ok(), "C18: serialization with schema recording succeeds");
        nb = sw.pos();
        schema = core::mem::take(&mut sw.schema);
        core::mem::forget(sw);
    }
    assert!(na == nb && a.len == b.len, "C18: schema recording writes the same number of bytes");
    let k: usize = any();
    assume(k < N);
    assert!(a.buf[k] == b.buf[k], "C18: schema recording writes byte-for-byte the same stream");
    check_rows(&schema.0, &b.buf, PRE, nb);
    assert!(schema.0[0].offset == PRE && schema.0[0].size == nb - PRE, "C18: the root row spans the value");
    let csv = schema.to_csv();
    let dbg = schema.debug(&b.buf[..nb]);
    core::mem::forget(csv);
    core::mem::forget(dbg);
    core::mem::forget(schema);
}

macro_rules! sc {
    ($($name:ident @ $unw:literal => $body:block);* $(;)?) => {$(
        #[cfg_attr(kani, kani::proof)] #[cfg_attr(kani, kani::unwind($unw))]
        #[cfg_attr(kani, kani::stub(alloc::fmt::format, crate::env::fmt_stub))]
        pub fn $name() $body
    )*};
}
sc!(
    c18_zeros_p0 @ 26 => { let x = ZeroS { a: any(), b: any() }; schema_inner::<_, 32, 0>(&x) };
    c18_zeros_p1 @ 26 => { let x = ZeroS { a: any(), b: any() }; schema_inner::<_, 32, 1>(&x) };
    c18_zeros_p3 @ 26 => { let x = ZeroS { a: any(), b: any() }; schema_inner::<_, 32, 3>(&x) };
    c18_u32_p1 @ 26 => { let x: u32 = any(); schema_inner::<_, 16, 1>(&x) };
    c18_deeps_some @ 26 => { let x = DeepS { id: any::<u16>(), data: vec_n::<u16>(2), tail: Some(any::<u8>()) }; schema_inner::<_, 48, 0>(&x) };
    c18_deeps_none_p1 @ 26 => { let x = DeepS { id: any::<u16>(), data: vec_n::<u16>(1), tail: None::<u8> }; schema_inner::<_, 48, 1>(&x) };
    c18_deeps_empty @ 26 => { let x = DeepS { id: any::<u16>(), data: Vec::<u16>::new(), tail: None::<u8> }; schema_inner::<_, 48, 0>(&x) };
    c18_vecstring @ 26 => { let x: Vec<String> = vec![string_w(1, 0), string_w(2, 1)]; schema_inner::<_, 64, 0>(&x) };
    c18_vecvec @ 26 => { let x: Vec<Vec<u16>> = vec![vec_n::<u16>(1), Vec::new(), vec_n::<u16>(2)]; schema_inner::<_, 64, 3>(&x) };
    c18_hold_zst @ 26 => { let x = Hold { a: any::<u8>(), z: ZAl4, b: any::<u8>() }; schema_inner::<_, 32, 0>(&x) };
    c18_unit_struct @ 26 => { schema_inner::<_, 16, 2>(&UnitS) };
    c18_e5_d @ 26 => { let x: E5<Vec<u8>> = E5::D { a: any(), b: vec_n::<u8>(2) }; schema_inner::<_, 48, 0>(&x) };
    c18_opt_zeros @ 26 => { let x: Option<ZeroS> = Some(ZeroS { a: any(), b: any() }); schema_inner::<_, 32, 0>(&x) };
    c18_arr_string @ 26 => { let x: [String; 2] = [string_w(0, 0), string_w(3, 0)]; schema_inner::<_, 48, 0>(&x) };
    c18_vecu128_p0 @ 26 => { let x: Vec<u128> = vec_n::<u128>(1); schema_inner::<_, 48, 0>(&x) };
    c18_vecu128_p3 @ 26 => { let x: Vec<u128> = vec_n::<u128>(1); schema_inner::<_, 48, 3>(&x) };
    c18_zal32_p8 @ 40 => { let x = ZAl32 { x: any() }; schema_inner::<_, 64, 8>(&x) };
    c18_zal32_p16 @ 40 => { let x = ZAl32 { x: any() }; schema_inner::<_, 64, 16>(&x) };
    c18_zal32_p31 @ 40 => { let x = ZAl32 { x: any() }; schema_inner::<_, 64, 31>(&x) };
    c18_tup3 @ 26 => { let x: (u64, u64, u64) = (any(), any(), any()); schema_inner::<_, 48, 5>(&x) };
);

/// Top level: `serialize_with_schema` (header rows included) vs `serialize`.
#[cfg_attr(kani, kani::proof)] #[cfg_attr(kani, kani::unwind(50))]
#[cfg_attr(kani, kani::stub(alloc::fmt::format, crate::env::fmt_stub))]
pub fn c18_toplevel_u32() {
    let x: u32 = any();
    let mut a = Sink::<64>::new();
    let na = x.serialize(&mut a).unwrap();
    let mut b = Sink::<64>::new();
    let schema = match x.serialize_with_schema(&mut b) { Ok(s) => s, Err(_) => { assert!(false, "C18: serialization with schema recording succeeds"); Schema(Vec::new()) } };
    assert!(a.len == b.len && na == a.len, "C18: schema recording writes the same number of bytes");
    let k: usize = any();
    assume(k < 64);
    assert!(a.buf[k] == b.buf[k], "C18: schema recording writes byte-for-byte the same stream");
    check_rows(&schema.0, &b.buf, 0, na);
    let csv = schema.to_csv();
    let dbg = schema.debug(&b.buf[..na]);
    core::mem::forget(csv);
    core::mem::forget(dbg);
    core::mem::forget(schema);
}

/// Reachability twin.
#[cfg_attr(kani, kani::proof)] #[cfg_attr(kani, kani::unwind(26))]
#[cfg_attr(kani, kani::stub(alloc::fmt::format, crate::env::fmt_stub))]
pub fn c18_twin_reach() {
    let x = ZeroS { a: any(), b: any() };
    let mut b = Sink::<32>::new();
    let mut w = WriterWithPos::new(&mut b);
    w.write_all(&[0xAA; 1]).unwrap();
    let mut sw = SchemaWriter::new(&mut w);
    WriteWithNames::write(&mut sw, "ROOT", &x).unwrap();
    let n = sw.schema.0.len();
    core::mem::forget(sw);
    assert!(n == 1, "TWIN: must be violated (padding and zero rows exist)");
}
