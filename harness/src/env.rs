//! Environment stubs shared by the harnesses.  Every item here is part of the
//! claim of the checks that use it and is listed in their evidence.

use epserde::deser::ReadNoStd;
use epserde::ser::WriteNoStd;

/// Fixed-capacity in-memory sink at the `WriteNoStd` boundary (never fails
/// unless the stream outgrows N, which the harnesses assert does not happen).
pub struct Sink<const N: usize> {
    pub buf: [u8; N],
    pub len: usize,
    pub calls: usize,
    pub flushed: usize,
}
impl<const N: usize> Sink<N> {
    pub fn new() -> Self {
        Self { buf: [0; N], len: 0, calls: 0, flushed: 0 }
    }
}
impl<const N: usize> WriteNoStd for Sink<N> {
    fn write_all(&mut self, b: &[u8]) -> epserde::ser::Result<()> {
        self.calls += 1;
        if self.len + b.len() > N {
            return Err(epserde::ser::Error::WriteError);
        }
        self.buf[self.len..self.len + b.len()].copy_from_slice(b);
        self.len += b.len();
        Ok(())
    }
    fn flush(&mut self) -> epserde::ser::Result<()> {
        self.flushed += 1;
        Ok(())
    }
}

/// Over-aligned byte buffer: CBMC places every object at a maximally aligned
/// base, so misplacement is always an explicit offset into one of these.
#[repr(C, align(128))]
pub struct Al<const N: usize>(pub [u8; N]);
impl<const N: usize> Al<N> {
    pub fn zero() -> Self {
        Al([0; N])
    }
}

/// Writer that accepts bytes until `fail_at` bytes were taken, then fails
/// (a write straddling the limit is rejected as a whole, as `write_all` on a
/// full device reports an error); optionally fails on flush.
pub struct Faulty<const N: usize> {
    pub buf: [u8; N],
    pub len: usize,
    pub fail_at: usize,
    pub flush_fails: bool,
    pub failed: bool,
}
impl<const N: usize> Faulty<N> {
    pub fn new(fail_at: usize, flush_fails: bool) -> Self {
        Self { buf: [0; N], len: 0, fail_at, flush_fails, failed: false }
    }
}
impl<const N: usize> WriteNoStd for Faulty<N> {
    fn write_all(&mut self, b: &[u8]) -> epserde::ser::Result<()> {
        if self.len + b.len() > self.fail_at || self.len + b.len() > N {
            self.failed = true;
            return Err(epserde::ser::Error::WriteError);
        }
        self.buf[self.len..self.len + b.len()].copy_from_slice(b);
        self.len += b.len();
        Ok(())
    }
    fn flush(&mut self) -> epserde::ser::Result<()> {
        if self.flush_fails {
            self.failed = true;
            Err(epserde::ser::Error::WriteError)
        } else {
            Ok(())
        }
    }
}

/// Reader at the `ReadNoStd` boundary: delivers exactly the next bytes, or
/// fails once a request would cross `fail_at` or the end of `data`.
pub struct Exact<'a> {
    pub data: &'a [u8],
    pub pos: usize,
    pub fail_at: usize,
}
impl<'a> Exact<'a> {
    pub fn new(data: &'a [u8]) -> Self {
        Self { data, pos: 0, fail_at: usize::MAX }
    }
    pub fn failing(data: &'a [u8], fail_at: usize) -> Self {
        Self { data, pos: 0, fail_at }
    }
}
impl<'a> ReadNoStd for Exact<'a> {
    fn read_exact(&mut self, buf: &mut [u8]) -> epserde::deser::Result<()> {
        let n = buf.len();
        if self.pos + n > self.data.len() || self.pos + n > self.fail_at {
            return Err(epserde::deser::Error::ReadError);
        }
        buf.copy_from_slice(&self.data[self.pos..self.pos + n]);
        self.pos += n;
        Ok(())
    }
}

/// Reader at the `ReadNoStd` boundary that fails at its J-th call (J is a
/// harness-instance constant: no symbolic branching on the failure path, which
/// keeps deep, heap-building deserializers tractable).
pub struct FailAtCall<'a> {
    pub data: &'a [u8],
    pub pos: usize,
    pub calls: usize,
    pub fail_call: usize,
    pub failed: bool,
}
impl<'a> FailAtCall<'a> {
    pub fn new(data: &'a [u8], fail_call: usize) -> Self {
        Self { data, pos: 0, calls: 0, fail_call, failed: false }
    }
}
impl<'a> ReadNoStd for FailAtCall<'a> {
    fn read_exact(&mut self, buf: &mut [u8]) -> epserde::deser::Result<()> {
        let n = buf.len();
        if self.calls == self.fail_call || self.pos + n > self.data.len() {
            self.failed = true;
            return Err(epserde::deser::Error::ReadError);
        }
        self.calls += 1;
        buf.copy_from_slice(&self.data[self.pos..self.pos + n]);
        self.pos += n;
        Ok(())
    }
}

/// Writer that must never be reached (C17): any byte written is a failed check.
pub struct Tripwire;
impl WriteNoStd for Tripwire {
    fn write_all(&mut self, _b: &[u8]) -> epserde::ser::Result<()> {
        assert!(false, "TRIPWIRE: a byte of the value reached the writer");
        Ok(())
    }
    fn flush(&mut self) -> epserde::ser::Result<()> {
        Ok(())
    }
}

/// Replacement for `alloc::fmt::format` where the rendered text is not the subject.
pub fn fmt_stub(_a: core::fmt::Arguments<'_>) -> String {
    String::new()
}

#[inline(always)]
pub fn u64_at(b: &[u8], o: usize) -> u64 {
    u64::from_ne_bytes([b[o], b[o + 1], b[o + 2], b[o + 3], b[o + 4], b[o + 5], b[o + 6], b[o + 7]])
}
#[inline(always)]
pub fn u16_at(b: &[u8], o: usize) -> u16 {
    u16::from_ne_bytes([b[o], b[o + 1]])
}

/// Model of UTF-8 well-formedness (Unicode Table 3-7), byte-wise state machine.
pub fn utf8_valid(b: &[u8]) -> bool {
    let n = b.len();
    let mut i = 0;
    while i < n {
        let c = b[i];
        if c < 0x80 {
            i += 1;
        } else if c >= 0xC2 && c <= 0xDF {
            if i + 1 >= n || b[i + 1] & 0xC0 != 0x80 { return false; }
            i += 2;
        } else if c >= 0xE0 && c <= 0xEF {
            if i + 2 >= n { return false; }
            let (lo, hi) = if c == 0xE0 { (0xA0, 0xBF) } else if c == 0xED { (0x80, 0x9F) } else { (0x80, 0xBF) };
            if b[i + 1] < lo || b[i + 1] > hi || b[i + 2] & 0xC0 != 0x80 { return false; }
            i += 3;
        } else if c >= 0xF0 && c <= 0xF4 {
            if i + 3 >= n { return false; }
            let (lo, hi) = if c == 0xF0 { (0x90, 0xBF) } else if c == 0xF4 { (0x80, 0x8F) } else { (0x80, 0xBF) };
            if b[i + 1] < lo || b[i + 1] > hi || b[i + 2] & 0xC0 != 0x80 || b[i + 3] & 0xC0 != 0x80 { return false; }
            i += 4;
        } else {
            return false;
        }
    }
    true
}

/// Stub for `core::str::from_utf8` (std's validator with its word-at-a-time
/// ASCII fast path does not fit in CBMC's memory on symbolic bytes).  Same
/// contract: Ok(the same bytes as str) iff the bytes are well-formed UTF-8.
/// The error value is a zeroed `Utf8Error` (its fields are not the subject).
pub fn from_utf8_stub(v: &[u8]) -> Result<&str, core::str::Utf8Error> {
    if utf8_valid(v) {
        Ok(unsafe { core::str::from_utf8_unchecked(v) })
    } else {
        Err(unsafe { core::mem::MaybeUninit::<core::str::Utf8Error>::zeroed().assume_init() })
    }
}

/// Bytes requested from the allocator since the last reset (C03 allocation
/// sub-claim).  Under Kani `std::alloc::alloc` is stubbed by `count_alloc_stub`
/// (every Vec/Box allocation of the deserializers goes through it); in a native
/// replay the replay binary installs a counting global allocator that feeds the
/// same counter.
pub static mut ALLOC_BYTES: usize = 0;
pub static mut ALLOC_CALLS: usize = 0;
extern "C" {
    fn malloc(n: usize) -> *mut u8;
}
/// CBMC's `malloc` (libc's natively; the stubs that call it are only active under Kani).
pub unsafe fn cbmc_malloc(n: usize) -> *mut u8 {
    malloc(n)
}
pub unsafe fn count_alloc_stub(l: std::alloc::Layout) -> *mut u8 {
    // CBMC's `malloc` (uninitialised contents, like the real `alloc`).  The
    // first version returned `std::alloc::alloc_zeroed(l)`: with CBMC 6.11 a
    // calloc-ed block combined with the writes to the counters made the drop of
    // a `Vec<Vec<_>>` holding an empty inner vector fail `__rust_dealloc`'s
    // checks spuriously (not reproducible natively or under Miri; DESIGN §7b).
    let r = malloc(l.size());
    let b = core::ptr::addr_of_mut!(ALLOC_BYTES);
    *b = (*b).wrapping_add(l.size());
    let c = core::ptr::addr_of_mut!(ALLOC_CALLS);
    *c = (*c).wrapping_add(1);
    r
}
pub fn alloc_reset() {
    unsafe { ALLOC_BYTES = 0; ALLOC_CALLS = 0; FREE_CALLS = 0; }
}
/// Releases of non-empty blocks since the last reset (C09: heap balance of a failed
/// ε-copy deserialization).  Under Kani `<Global as Allocator>::deallocate`, through which
/// every Box/Vec drop passes, is stubbed by `count_dealloc_stub`; natively the replay
/// program's global allocator feeds the counter.
pub static mut FREE_CALLS: usize = 0;
#[cfg(kani)]
pub unsafe fn count_dealloc_stub(_g: &std::alloc::Global, p: core::ptr::NonNull<u8>, l: std::alloc::Layout) {
    if l.size() != 0 {
        // CBMC's own free model behind std::alloc::dealloc: double/invalid frees stay failed checks
        std::alloc::dealloc(p.as_ptr(), l);
        let c = core::ptr::addr_of_mut!(FREE_CALLS);
        *c = (*c).wrapping_add(1);
    }
}
pub fn alloc_bytes() -> usize {
    unsafe { ALLOC_BYTES }
}
