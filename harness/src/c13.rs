//! C13 — writer failures: `Err(WriteError)` iff a failure was injected, never
//! a panic, accepted bytes are a prefix of the fault-free stream, and the
//! source value is intact afterwards — it is *dropped inside the harness*, so
//! a double/invalid free in the real code is a failed CBMC check.
use crate::cases::*;
use crate::env::*;
use crate::rt::Case;
use crate::sym::{self, any, assume, vec_upto};
use crate::universe::*;
use epserde::prelude::*;
use epserde::ser::{Error as SE, Serialize, SerializeInner, WriteNoStd, WriteWithPos, WriterWithPos};

/// Owned values: inner serializer into a writer failing at symbolic position.
pub fn faulty_owned<C: Case, const N: usize>()
where
    C::T: Clone,
{
    let x = C::make(0);
    let keep = x.clone();
    // fault-free reference run
    let mut good = Sink::<N>::new();
    let n;
    {
        let mut w = WriterWithPos::new(&mut good);
        let r = SerializeInner::_serialize_inner(&x, &mut w);
        assert!(r.is_ok(), "HARNESS: fault-free run succeeds");
        n = w.pos();
    }
    let fail_at: usize = any();
    assume(fail_at <= N);
    let mut f = Faulty::<N>::new(fail_at, false);
    let r;
    {
        let mut w = WriterWithPos::new(&mut f);
        r = SerializeInner::_serialize_inner(&x, &mut w);
    }
    match r {
        Ok(()) => { crate::cover!(true, "no failure injected"); assert!(!f.failed && f.len == n, "C13: success reported although the writer failed / bytes missing"); }
        Err(SE::WriteError) => { crate::cover!(true, "failure injected"); assert!(f.failed, "C13: write error reported without an injected failure"); }
        Err(_) => { assert!(false, "C13: a failing writer yields WriteError"); }
    }
    assert!(f.failed == (fail_at < n), "C13: failure surfaces iff the limit is below the stream length");
    // accepted bytes are a prefix of the fault-free output
    assert!(f.len <= n, "C13: more bytes accepted than the fault-free stream has");
    let k: usize = any();
    assume(k < f.len);
    assert!(f.buf[k] == good.buf[k], "C13: accepted bytes are a prefix of the fault-free output");
    // source value intact, and dropping it is sound
    assert!(C::same(&x, &keep), "C13: source value changed by a failed serialization");
    drop(x);
    drop(keep);
}

/// Borrowed slice `&[T]` (zero-copy and deep T): the data behind the slice is
/// owned by `v`, which is used and dropped after the failed serialization.
fn faulty_slice_u8() {
    let v: Vec<u8> = vec_upto::<u8, 3>();
    let n = 8 + v.len();
    let fail_at: usize = any();
    assume(fail_at <= 16);
    let mut f = Faulty::<16>::new(fail_at, false);
    {
        let s: &[u8] = v.as_slice();
        let mut w = WriterWithPos::new(&mut f);
        let r = SerializeInner::_serialize_inner(&s, &mut w);
        match r {
            Ok(()) => { crate::cover!(true, "no failure injected"); assert!(fail_at >= n, "C13: success reported although the writer failed"); }
            Err(SE::WriteError) => { crate::cover!(true, "failure injected"); assert!(fail_at < n, "C13: write error without an injected failure"); }
            Err(_) => { assert!(false, "C13: a failing writer yields WriteError"); }
        }
    }
    // the borrowed data is still owned by v: read it and free it exactly once
    let k: usize = any();
    assume(k < v.len());
    let _b = v[k];
    drop(v);
}
#[cfg_attr(kani, kani::proof)] #[cfg_attr(kani, kani::unwind(6))]
pub fn c13_slice_u8() { faulty_slice_u8() }

#[cfg_attr(kani, kani::proof)] #[cfg_attr(kani, kani::unwind(5))]
pub fn c13_slice_u32() {
    let v: Vec<u32> = vec_upto::<u32, 2>();
    let fail_at: usize = any();
    assume(fail_at <= 32);
    let mut f = Faulty::<32>::new(fail_at, false);
    {
        let s: &[u32] = v.as_slice();
        let mut w = WriterWithPos::new(&mut f);
        let r = SerializeInner::_serialize_inner(&s, &mut w);
        let n = 8 + 4 * v.len();
        assert!(r.is_ok() == (fail_at >= n), "C13: Ok iff no failure was injected");
        core::mem::forget(r);
    }
    let k: usize = any();
    assume(k < v.len());
    let _b = v[k];
    drop(v);
}

/// Deep elements behind a borrowed slice (`&[Vec<u8>]`).
#[cfg_attr(kani, kani::proof)] #[cfg_attr(kani, kani::unwind(5))]
pub fn c13_slice_deep() {
    let v: Vec<Vec<u8>> = vec![vec_upto::<u8, 2>(), vec_upto::<u8, 1>()];
    let fail_at: usize = any();
    assume(fail_at <= 48);
    let mut f = Faulty::<48>::new(fail_at, false);
    let n = 8 + 8 + v[0].len() + 8 + v[1].len();
    {
        let s: &[Vec<u8>] = v.as_slice();
        let mut w = WriterWithPos::new(&mut f);
        let r = SerializeInner::_serialize_inner(&s, &mut w);
        assert!(r.is_ok() == (fail_at >= n), "C13: Ok iff no failure was injected");
        core::mem::forget(r);
    }
    assert!(v.len() == 2, "C13: source value changed");
    drop(v);
}

/// Struct holding a slice reference in a parameter field.
#[cfg_attr(kani, kani::proof)] #[cfg_attr(kani, kani::unwind(5))]
pub fn c13_struct_with_slice() {
    let v: Vec<u16> = vec_upto::<u16, 2>();
    let fail_at: usize = any();
    assume(fail_at <= 32);
    let mut f = Faulty::<32>::new(fail_at, false);
    {
        let x = DeepS::<&[u16]> { id: any(), data: v.as_slice(), tail: None };
        let mut w = WriterWithPos::new(&mut f);
        let r = SerializeInner::_serialize_inner(&x, &mut w);
        let n = 2 + 8 + 2 * v.len() + 1;
        assert!(r.is_ok() == (fail_at >= n), "C13: Ok iff no failure was injected");
        core::mem::forget(r);
    }
    let k: usize = any();
    assume(k < v.len());
    let _b = v[k];
    drop(v);
}

/// Exact-size iterator wrapper over borrowed items.
#[cfg_attr(kani, kani::proof)] #[cfg_attr(kani, kani::unwind(5))]
pub fn c13_seriter() {
    let v: Vec<u16> = vec_upto::<u16, 2>();
    let fail_at: usize = any();
    assume(fail_at <= 32);
    let mut f = Faulty::<32>::new(fail_at, false);
    {
        let it = SerIter::new(v.iter());
        let mut w = WriterWithPos::new(&mut f);
        let r = SerializeInner::_serialize_inner(&it, &mut w);
        let n = 8 + 2 * v.len();
        assert!(r.is_ok() == (fail_at >= n), "C13: Ok iff no failure was injected");
        core::mem::forget(r);
    }
    let k: usize = any();
    assume(k < v.len());
    let _b = v[k];
    drop(v);
}

/// Top-level `serialize` (header + value + flush): failure at any position or
/// on flush only.
#[cfg_attr(kani, kani::proof)] #[cfg_attr(kani, kani::unwind(50))]
pub fn c13_serialize_flush() {
    let x: u32 = any();
    let fail_at: usize = any();
    assume(fail_at <= 64);
    let flush_fails: bool = any();
    let mut f = Faulty::<64>::new(fail_at, flush_fails);
    let r = x.serialize(&mut f);
    let n = 29 + 8 + 3 + 4;
    match r {
        Ok(k) => { crate::cover!(true, "success"); assert!(fail_at >= n && !flush_fails && k == n && f.len == n, "C13: success reported although the writer or flush failed"); }
        Err(SE::WriteError) => { crate::cover!(fail_at >= n && flush_fails, "flush-only failure"); assert!(fail_at < n || flush_fails, "C13: write error without an injected failure"); }
        Err(_) => { assert!(false, "C13: a failing writer yields WriteError"); }
    }
}

/// The schema-recording entry point reports a flush failure like `serialize`
/// (no write failure injected here; see `c13_schema_fail_k*` for those).
#[cfg_attr(kani, kani::proof)] #[cfg_attr(kani, kani::unwind(50))]
#[cfg_attr(kani, kani::stub(alloc::fmt::format, crate::env::fmt_stub))]
pub fn c13_schema_flush() {
    let x: u32 = any();
    let flush_fails: bool = any();
    let mut f = Faulty::<64>::new(64, flush_fails);
    let r = x.serialize_with_schema(&mut f);
    let n = 29 + 8 + 3 + 4;
    match r {
        Ok(sc) => { crate::cover!(true, "success"); core::mem::forget(sc); assert!(!flush_fails && f.len == n, "C13: serialize_with_schema reports success although flush failed"); }
        Err(SE::WriteError) => { crate::cover!(true, "flush-only failure"); assert!(flush_fails, "C13: write error without an injected failure"); }
        Err(_) => { assert!(false, "C13: a failing writer yields WriteError"); }
    }
}
/// ... and a write failure after K accepted bytes (K an instance constant: the
/// schema writer's string handling does not tolerate a symbolic failure point).
fn schema_fail<const K: usize>() {
    let x: u32 = any();
    let mut f = Faulty::<64>::new(K, false);
    let r = x.serialize_with_schema(&mut f);
    let n = 29 + 8 + 3 + 4;
    match r {
        Ok(sc) => { core::mem::forget(sc); assert!(K >= n, "C13: serialize_with_schema reports success although the writer failed"); }
        Err(SE::WriteError) => { assert!(K < n && f.len <= K, "C13: write error without an injected failure / bytes accepted beyond the limit"); }
        Err(_) => { assert!(false, "C13: a failing writer yields WriteError"); }
    }
}
macro_rules! sf { ($($name:ident : $k:literal);* $(;)?) => {$(
    #[cfg_attr(kani, kani::proof)] #[cfg_attr(kani, kani::unwind(50))]
    #[cfg_attr(kani, kani::stub(alloc::fmt::format, crate::env::fmt_stub))]
    pub fn $name() { schema_fail::<$k>() }
)*}; }
sf!(c13_schema_fail_k0: 0; c13_schema_fail_k8: 8; c13_schema_fail_k30: 30; c13_schema_fail_k40: 40; c13_schema_fail_k43: 43);

// ---- the std layer: `impl<W: io::Write> WriteNoStd for W` -------------------------------

/// io::Write that takes a symbolic, possibly short, number of bytes per call,
/// may report Interrupted (retried by write_all) or Ok(0) (an error for write_all).
pub struct ShortW<const N: usize> {
    pub buf: [u8; N],
    pub len: usize,
    pub calls: usize,
    pub zero_seen: bool,
}
impl<const N: usize> std::io::Write for ShortW<N> {
    fn write(&mut self, b: &[u8]) -> std::io::Result<usize> {
        self.calls += 1;
        // bound of the claim: at most 6 write calls (assumed here, before the retry loop continues)
        assume(self.calls <= 6);
        let mode: u8 = any();
        assume(mode < 3);
        if mode == 1 {
            return Err(std::io::Error::from(std::io::ErrorKind::Interrupted));
        }
        if mode == 2 {
            self.zero_seen = true;
            return Ok(0);
        }
        let n: usize = any();
        assume(n >= 1 && n <= b.len());
        self.buf[self.len..self.len + n].copy_from_slice(&b[..n]);
        self.len += n;
        Ok(n)
    }
    fn flush(&mut self) -> std::io::Result<()> { Ok(()) }
}

#[cfg_attr(kani, kani::proof)] #[cfg_attr(kani, kani::unwind(10))]
pub fn c13_short_writes_u32() {
    let v: u32 = any();
    let mut sw = ShortW::<8> { buf: [0; 8], len: 0, calls: 0, zero_seen: false };
    let r;
    {
        let mut w = WriterWithPos::new(&mut sw);
        r = SerializeInner::_serialize_inner(&v, &mut w);
    }
    match r {
        Ok(()) => {
            crate::cover!(sw.calls > 1, "split or retried writes");
            assert!(!sw.zero_seen && sw.len == 4, "C13: success although the sink stopped accepting bytes");
            let k: usize = any();
            assume(k < 4);
            assert!(sw.buf[k] == v.to_ne_bytes()[k], "C13: splitting/retrying writers receive exactly the fault-free bytes");
        }
        Err(SE::WriteError) => { crate::cover!(true, "Ok(0) surfaces as WriteError"); assert!(sw.zero_seen, "C13: write error without a sink failure"); }
        Err(_) => { assert!(false, "C13: a failing writer yields WriteError"); }
    }
    // delivered bytes are always a prefix
    let k: usize = any();
    assume(k < sw.len);
    assert!(sw.buf[k] == v.to_ne_bytes()[k], "C13: delivered bytes are a prefix of the fault-free output");
}

macro_rules! owned {
    ($($name:ident : $case:ty, $n:literal, $unw:literal);* $(;)?) => {$(
        #[cfg_attr(kani, kani::proof)] #[cfg_attr(kani, kani::unwind($unw))]
        pub fn $name() { faulty_owned::<$case, $n>() }
    )*};
}
owned!(
    c13_owned_u64: U64, 16, 4; c13_owned_vecu32: VecU32, 32, 5; c13_owned_str: Str, 24, 10;
    c13_owned_vecvec: VecVecU16, 48, 4; c13_owned_deeps: DeepSVec, 32, 6; c13_owned_zeros: ZeroSC, 16, 3;
    c13_owned_e5: E5C, 48, 5; c13_owned_optvec: OptVecU16, 32, 4; c13_owned_arrstr: ArrStringx2, 48, 6;
);

/// Reachability twin.
#[cfg_attr(kani, kani::proof)] #[cfg_attr(kani, kani::unwind(6))]
pub fn c13_twin_reach() {
    let v: Vec<u8> = vec_upto::<u8, 3>();
    let fail_at: usize = any();
    assume(fail_at <= 16);
    let mut f = Faulty::<16>::new(fail_at, false);
    let mut w = WriterWithPos::new(&mut f);
    let r = SerializeInner::_serialize_inner(&v, &mut w);
    let ok = r.is_ok();
    core::mem::forget(r);
    assert!(ok, "TWIN: must be violated (failures are injected)");
}
