//! The listed type universe (DESIGN.md §4): real `#[derive(Epserde)]`
//! definitions, so the macro's current output is what gets verified.
use epserde::prelude::*;
use core::marker::PhantomData;

// ---- deep-copy structs -----------------------------------------------------

/// Parameter field `data: A` (ε-copied), non-parameter fields full-copied.
#[derive(Epserde, Debug, PartialEq, Eq, Clone)]
pub struct DeepS<A> {
    pub id: u16,
    pub data: A,
    pub tail: Option<u8>,
}

/// A field whose type merely *mentions* the parameter (`Vec<A>`): fully deserialized.
#[derive(Epserde, Debug, PartialEq, Eq, Clone)]
pub struct Mention<A> {
    pub v: Vec<A>,
    pub k: u8,
}

/// A parameter field, a field mentioning another parameter, and a phantom parameter.
/// (A parameter that is *both* a field type and mentioned elsewhere is rejected by rustc: grammar boundary.)
#[derive(Epserde, Debug, PartialEq, Eq, Clone)]
pub struct Both<A, B, P> {
    pub a: A,
    pub vb: Vec<B>,
    pub _p: PhantomData<P>,
}

/// Defaulted parameter, bound, where-clause, const parameter.
#[derive(Epserde, Debug, PartialEq, Eq, Clone)]
pub struct Gen<A: PartialEq = usize, const Q: usize = 3>
where
    [i32; Q]: Copy,
{
    pub a: A,
    pub b: [i32; Q],
}

#[derive(Epserde, Debug, PartialEq, Eq, Clone)]
pub struct TupS(pub u8, pub Vec<u16>, pub u64);

#[derive(Epserde, Debug, PartialEq, Eq, Clone, Copy)]
pub struct UnitS;

/// Deep struct whose fields are all zero-copy but which is declared deep.
#[derive(Epserde, Debug, PartialEq, Eq, Clone, Copy)]
#[deep_copy]
pub struct DeepPrims {
    pub a: u8,
    pub b: u64,
    pub c: i16,
}

/// Holder of a parameter field between two bytes (reaches the ZST shortcut of
/// the ε-copy reader when `A` is zero-sized).
#[derive(Epserde, Debug, PartialEq, Eq, Clone)]
pub struct Hold<A> {
    pub a: u8,
    pub z: A,
    pub b: u8,
}

// ---- zero-copy structs -----------------------------------------------------

/// Interior padding (u8, pad 3, u32).
#[derive(Epserde, Debug, PartialEq, Eq, Clone, Copy)]
#[repr(C)]
#[zero_copy]
pub struct ZeroS {
    pub a: u8,
    pub b: u32,
}

/// Trailing padding (u32, u8, pad 3).
#[derive(Epserde, Debug, PartialEq, Eq, Clone, Copy)]
#[repr(C)]
#[zero_copy]
pub struct ZTail {
    pub a: u32,
    pub b: u8,
}

/// Over-aligned.
#[derive(Epserde, Debug, PartialEq, Eq, Clone, Copy)]
#[repr(C)]
#[repr(align(32))]
#[zero_copy]
pub struct ZAl32 {
    pub x: u16,
}

/// Generic zero-copy.
#[derive(Epserde, Debug, PartialEq, Eq, Clone, Copy)]
#[repr(C)]
#[zero_copy]
pub struct ZGen<A: ZeroCopy> {
    pub a: A,
    pub b: u8,
}

/// Nested zero-copy.
#[derive(Epserde, Debug, PartialEq, Eq, Clone, Copy)]
#[repr(C)]
#[zero_copy]
pub struct ZNest {
    pub z: ZeroS,
    pub w: [u16; 3],
}

/// Zero-sized zero-copy.
#[derive(Epserde, Debug, PartialEq, Eq, Clone, Copy, Default)]
#[repr(C)]
#[zero_copy]
pub struct ZUnit;

/// Zero-sized, over-aligned zero-copy.
#[derive(Epserde, Debug, PartialEq, Eq, Clone, Copy, Default)]
#[repr(C)]
#[repr(align(4))]
#[zero_copy]
pub struct ZAl4;

/// Zero-copy tuple struct with a const parameter.
#[derive(Epserde, Debug, PartialEq, Eq, Clone, Copy)]
#[repr(C)]
#[zero_copy]
pub struct ZConst<const N: usize>(pub [u8; N], pub u16);

// ---- enums -----------------------------------------------------------------

#[derive(Epserde, Debug, PartialEq, Eq, Clone)]
pub enum En<T> {
    A,
    B(T),
    C { x: u8, y: T },
}

#[derive(Epserde, Debug, PartialEq, Eq, Clone)]
pub enum E1 {
    Only(u16),
}

#[derive(Epserde, Debug, PartialEq, Eq, Clone, Copy)]
pub enum E2 {
    No,
    Yes,
}

#[derive(Epserde, Debug, PartialEq, Eq, Clone)]
pub enum E5<V = Vec<u8>> {
    A,
    B(u64),
    C(u8, Vec<u16>),
    D { a: i32, b: V },
    E,
}

#[derive(Epserde, Debug, PartialEq, Eq, Clone, Copy)]
#[repr(C)]
#[zero_copy]
pub enum ZE {
    A,
    B(u64),
    C { a: i32, b: i32 },
}
