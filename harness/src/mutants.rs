//! C04 — near-miss mutants of universe types.  Every definition of a group has
//! the SAME identifier (`M`, `E`, `K`, `G`, `Z`) in a different module, so that
//! the type hash differs only through the single listed mutation (the hash
//! uses the bare identifier, `type_name` uses the full path).
#![allow(non_camel_case_types)]
use epserde::prelude::*;

pub mod b { use super::*; #[derive(Epserde, Debug, PartialEq, Eq, Clone)] pub struct M { pub a: u32, pub b: u16 } }
/// one field renamed
pub mod rn { use super::*; #[derive(Epserde, Debug, PartialEq, Eq, Clone)] pub struct M { pub a: u32, pub c: u16 } }
/// two fields swapped
pub mod sw { use super::*; #[derive(Epserde, Debug, PartialEq, Eq, Clone)] pub struct M { pub b: u16, pub a: u32 } }
/// one field type replaced by a same-size type
pub mod ty { use super::*; #[derive(Epserde, Debug, PartialEq, Eq, Clone)] pub struct M { pub a: i32, pub b: u16 } }
pub mod tf { use super::*; #[derive(Epserde, Debug, PartialEq, Clone)] pub struct M { pub a: f32, pub b: u16 } }
/// copy kind toggled (same fields, zero-copy)
pub mod zc { use super::*; #[derive(Epserde, Debug, PartialEq, Eq, Clone, Copy)] #[repr(C)] #[zero_copy] pub struct M { pub a: u32, pub b: u16 } }
/// explicitly deep-copy (attribute only silences a warning: same structure as base)
pub mod dc { use super::*; #[derive(Epserde, Debug, PartialEq, Eq, Clone, Copy)] #[deep_copy] pub struct M { pub a: u32, pub b: u16 } }
/// type renamed
pub mod nm { use super::*; #[derive(Epserde, Debug, PartialEq, Eq, Clone)] pub struct N { pub a: u32, pub b: u16 } }
/// tuple struct (field names become indices)
pub mod tu { use super::*; #[derive(Epserde, Debug, PartialEq, Eq, Clone)] pub struct M(pub u32, pub u16); }
/// one more field
pub mod xf { use super::*; #[derive(Epserde, Debug, PartialEq, Eq, Clone)] pub struct M { pub a: u32, pub b: u16, pub c: () } }

// zero-copy layout: same fields and names, different representation attributes
pub mod z0 { use super::*; #[derive(Epserde, Debug, PartialEq, Eq, Clone, Copy)] #[repr(C)] #[zero_copy] pub struct Z { pub a: u8, pub b: u32 } }
pub mod z8 { use super::*; #[derive(Epserde, Debug, PartialEq, Eq, Clone, Copy)] #[repr(C)] #[repr(align(8))] #[zero_copy] pub struct Z { pub a: u8, pub b: u32 } }
pub mod z16 { use super::*; #[derive(Epserde, Debug, PartialEq, Eq, Clone, Copy)] #[repr(C)] #[repr(align(16))] #[zero_copy] pub struct Z { pub a: u8, pub b: u32 } }
/// same size, different padding position
pub mod zs { use super::*; #[derive(Epserde, Debug, PartialEq, Eq, Clone, Copy)] #[repr(C)] #[zero_copy] pub struct Z { pub b: u32, pub a: u8 } }

// generic arguments, const-generic values and names
pub mod g { use super::*; #[derive(Epserde, Debug, PartialEq, Eq, Clone)] pub struct G<A> { pub a: A } }
pub mod k { use super::*; #[derive(Epserde, Debug, PartialEq, Eq, Clone, Copy)] #[repr(C)] #[zero_copy] pub struct K<const N: usize> { pub a: [u8; 4] } }
// the same for the other three code paths of the derive (deep-copy struct, deep-copy enum, zero-copy enum): the const
// parameter is not mirrored by any field type, so only the derive's own hashing of the value distinguishes K<2> from K<3>
// (seeded change C04c: the deep-copy struct path hashed the names twice and the values never)
pub mod kd { use super::*; #[derive(Epserde, Debug, PartialEq, Eq, Clone)] pub struct K<const N: usize> { pub a: Vec<u8>, pub n: u8 } }
pub mod kdq { use super::*; #[derive(Epserde, Debug, PartialEq, Eq, Clone)] pub struct K<const Q: usize> { pub a: Vec<u8>, pub n: u8 } }
pub mod ke { use super::*; #[derive(Epserde, Debug, PartialEq, Eq, Clone)] pub enum K<const N: usize> { A, B(Vec<u8>) } }
pub mod keq { use super::*; #[derive(Epserde, Debug, PartialEq, Eq, Clone)] pub enum K<const Q: usize> { A, B(Vec<u8>) } }
pub mod kz { use super::*; #[derive(Epserde, Debug, PartialEq, Eq, Clone, Copy)] #[repr(C)] #[zero_copy] pub enum K<const N: usize> { A, B(u8) } }
pub mod kzq { use super::*; #[derive(Epserde, Debug, PartialEq, Eq, Clone, Copy)] #[repr(C)] #[zero_copy] pub enum K<const Q: usize> { A, B(u8) } }
pub mod kq { use super::*; #[derive(Epserde, Debug, PartialEq, Eq, Clone, Copy)] #[repr(C)] #[zero_copy] pub struct K<const Q: usize> { pub a: [u8; 4] } }

// enums: variant renamed / reordered / payload type
pub mod e0 { use super::*; #[derive(Epserde, Debug, PartialEq, Eq, Clone)] pub enum E { A, B(u8) } }
pub mod er { use super::*; #[derive(Epserde, Debug, PartialEq, Eq, Clone)] pub enum E { A, C(u8) } }
pub mod eo { use super::*; #[derive(Epserde, Debug, PartialEq, Eq, Clone)] pub enum E { B(u8), A } }
pub mod et { use super::*; #[derive(Epserde, Debug, PartialEq, Eq, Clone)] pub enum E { A, B(i8) } }
pub mod es { use super::*; #[derive(Epserde, Debug, PartialEq, Eq, Clone)] pub enum E { A, B { x: u8 } } }
