//! C11 — truncation: a strict prefix of a valid serialization is never turned
//! into a value.  Full-copy: `Err(ReadError)` for every cut point k.  ε-copy:
//! an error or a bounds-check panic (the driver allows exactly those check
//! classes, see plan.py), never `Ok` and never a memory-safety check failure.
use crate::cases::*;
use crate::env::*;
use crate::rt::Case;
use crate::sym::{self, any, assume};
use epserde::deser::{Deserialize, DeserializeInner, Error as DE, ReadWithPos, ReaderWithPos, SliceWithPos};
use epserde::ser::{Serialize, SerializeInner, WriteWithPos, WriterWithPos};

fn ser_inner<C: Case, const N: usize, const S: usize>(x: &C::T) -> (Sink<N>, usize) {
    let mut s = Sink::<N>::new();
    let n;
    {
        let mut w = WriterWithPos::new(&mut s);
        let r = SerializeInner::_serialize_inner(x, &mut w);
        assert!(r.is_ok(), "HARNESS: serialization succeeds");
        n = w.pos();
    }
    (s, n)
}

/// Full-copy over the real ReaderWithPos on an exact reader of bytes[..k].
pub fn trunc_full<C: Case, const N: usize, const S: usize>() {
    let x = C::make(S);
    let (s, n) = ser_inner::<C, N, S>(&x);
    let k: usize = any();
    assume(k < n);
    let mut rd = Exact::new(&s.buf[..k]);
    let mut rp = ReaderWithPos::new(&mut rd);
    let r = <C::T>::_deserialize_full_inner(&mut rp);
    match r {
        Ok(v) => { core::mem::forget(v); assert!(false, "C11: a strict prefix was deserialized into a value (full-copy)"); }
        Err(DE::ReadError) => { crate::cover!(true, "ReadError on a truncated stream"); }
        Err(e) => { core::mem::forget(e); assert!(false, "C11: full-copy of a truncated stream returns a read error"); }
    }
}

/// Full-copy through the blanket `impl<R: io::Read> ReadNoStd for R` (a byte
/// slice as `io::Read`), value written at start residue PRE so that cut points
/// fall inside alignment padding (also trailing padding of an empty sequence).
pub fn trunc_full_io<C: Case, const N: usize, const S: usize, const PRE: usize>() {
    let x = C::make(S);
    let mut s = Sink::<N>::new();
    let n;
    {
        let mut w = WriterWithPos::new(&mut s);
        if PRE > 0 { assert!(epserde::ser::WriteNoStd::write_all(&mut w, &[0xAA; PRE]).is_ok(), "HARNESS: prefix fits"); }
        let r = SerializeInner::_serialize_inner(&x, &mut w);
        assert!(r.is_ok(), "HARNESS: serialization succeeds");
        n = w.pos();
    }
    let k: usize = any();
    assume(k >= PRE && k < n);
    let mut rd: &[u8] = &s.buf[..k];
    let mut rp = ReaderWithPos::new(&mut rd);
    let mut skip = [0u8; PRE];
    assert!(epserde::deser::ReadNoStd::read_exact(&mut rp, &mut skip).is_ok(), "HARNESS: prefix readable");
    let r = <C::T>::_deserialize_full_inner(&mut rp);
    match r {
        Ok(v) => { core::mem::forget(v); assert!(false, "C11: a strict prefix was deserialized into a value (full-copy over io::Read)"); }
        Err(DE::ReadError) => { crate::cover!(true, "ReadError on a truncated stream"); }
        Err(e) => { core::mem::forget(e); assert!(false, "C11: full-copy of a truncated stream returns a read error"); }
    }
}

/// ε-copy on the exact prefix.  The result must not be Ok; panics located in
/// slice indexing / bounds checks are failed checks that the driver tolerates.
pub fn trunc_eps<C: Case, const N: usize, const S: usize>() {
    let x = C::make(S);
    let (s, n) = ser_inner::<C, N, S>(&x);
    let k: usize = any();
    assume(k < n);
    let mut al = Al::<N>::zero();
    al.0 = s.buf;
    let mut sl = SliceWithPos::new(&al.0[..k]);
    let r = <C::T>::_deserialize_eps_inner(&mut sl);
    crate::cover!(r.is_err(), "error return on a truncated stream");
    let ok = r.is_ok();
    core::mem::forget(r);
    assert!(!ok, "C11: a strict prefix was deserialized into a value (eps)");
}

/// ε-copy on an object that is *exactly* K bytes long (heap copy of the
/// prefix), so that any read outside the prefix is a CBMC pointer-check failure.
pub fn trunc_eps_exact<C: Case, const N: usize, const S: usize, const K: usize>() {
    let x = C::make(S);
    let (s, n) = ser_inner::<C, N, S>(&x);
    assume(K < n);
    let exact: Vec<u8> = s.buf[..K].to_vec();
    let mut sl = SliceWithPos::new(&exact[..]);
    let r = <C::T>::_deserialize_eps_inner(&mut sl);
    let ok = r.is_ok();
    core::mem::forget(r);
    assert!(!ok, "C11: a strict prefix was deserialized into a value (eps, exact-size object)");
}

/// With the real header, through the public entry points (stream <= 64 bytes).
pub fn trunc_header<C: Case, const EPS: bool>()
where
    C::T: Serialize + Deserialize,
{
    let x = C::make(0);
    let mut s = Sink::<64>::new();
    let n = match x.serialize(&mut s) { Ok(n) => n, Err(_) => { assert!(false, "HARNESS: serializes"); 0 } };
    let k: usize = any();
    assume(k < n);
    let mut al = Al::<64>::zero();
    al.0 = s.buf;
    if EPS {
        let r = <C::T>::deserialize_eps(&al.0[..k]);
        let ok = r.is_ok();
        core::mem::forget(r);
        assert!(!ok, "C11: a truncated file was deserialized into a value (eps)");
    } else {
        let mut rd = Exact::new(&al.0[..k]);
        let r = <C::T>::deserialize_full(&mut rd);
        match r {
            Ok(v) => { core::mem::forget(v); assert!(false, "C11: a truncated file was deserialized into a value (full-copy)"); }
            Err(DE::ReadError) => {}
            Err(e) => { core::mem::forget(e); assert!(false, "C11: full-copy of a truncated file returns a read error"); }
        }
    }
}

/// Const cut point (deep, heap-building types; header parsing): K bytes of the stream survive.
pub fn trunc_full_k<C: Case, const N: usize, const S: usize, const K: usize>() {
    let x = C::make(S);
    let (s, n) = ser_inner::<C, N, S>(&x);
    if K >= n { return; }
    let mut rd = Exact::new(&s.buf[..K]);
    let mut rp = ReaderWithPos::new(&mut rd);
    let r = <C::T>::_deserialize_full_inner(&mut rp);
    match r {
        Ok(v) => { core::mem::forget(v); assert!(false, "C11: a strict prefix was deserialized into a value (full-copy)"); }
        Err(DE::ReadError) => {}
        Err(e) => { core::mem::forget(e); assert!(false, "C11: full-copy of a truncated stream returns a read error"); }
    }
}
/// Deep, heap-building types: the stream ends inside the J-th request of the
/// deserializer (J an instance constant, every J an instance) — the same event as
/// "K bytes survive" seen at the `ReadNoStd` boundary.
pub fn trunc_at_call<C: Case, const N: usize, const S: usize, const J: usize>() {
    let x = C::make(S);
    let (s, n) = ser_inner::<C, N, S>(&x);
    let mut rd = FailAtCall::new(&s.buf[..n], J);
    let r;
    {
        let mut rp = ReaderWithPos::new(&mut rd);
        r = <C::T>::_deserialize_full_inner(&mut rp);
    }
    match r {
        Ok(v) => { core::mem::forget(v); assert!(!rd.failed, "C11: a stream that ended early was deserialized into a value (full-copy)"); }
        Err(DE::ReadError) => { assert!(rd.failed, "C11: read error although the stream was complete"); }
        Err(e) => { core::mem::forget(e); assert!(false, "C11: full-copy of a truncated stream returns a read error"); }
    }
}
pub fn trunc_header_k<C: Case, const EPS: bool, const K: usize>()
where
    C::T: Serialize + Deserialize,
{
    let x = C::make(0);
    let mut s = Sink::<64>::new();
    let n = match x.serialize(&mut s) { Ok(n) => n, Err(_) => { assert!(false, "HARNESS: serializes"); 0 } };
    if K >= n { return; }
    let mut al = Al::<64>::zero();
    al.0 = s.buf;
    if EPS {
        let r = <C::T>::deserialize_eps(&al.0[..K]);
        let ok = r.is_ok();
        core::mem::forget(r);
        assert!(!ok, "C11: a truncated file was deserialized into a value (eps)");
    } else {
        let mut rd = Exact::new(&al.0[..K]);
        let r = <C::T>::deserialize_full(&mut rd);
        match r {
            Ok(v) => { core::mem::forget(v); assert!(false, "C11: a truncated file was deserialized into a value (full-copy)"); }
            Err(DE::ReadError) => {}
            Err(e) => { core::mem::forget(e); assert!(false, "C11: full-copy of a truncated file returns a read error"); }
        }
    }
}

macro_rules! tr {
    ($($name:ident = $f:ident :: <$($g:tt),*> @ $unw:literal);* $(;)?) => {$(
        #[cfg_attr(kani, kani::proof)] #[cfg_attr(kani, kani::unwind($unw))]
        #[cfg_attr(kani, kani::stub(core::str::from_utf8, crate::env::from_utf8_stub))]
        pub fn $name() { $f::<$($g),*>() }
    )*};
}
tr!(
    c11_full_u32 = trunc_full::<U32, 16, 0> @ 4;
    c11_full_optu32 = trunc_full::<OptU32, 16, 0> @ 4;
    c11_full_vecu32 = trunc_full::<VecU32, 32, 0> @ 6;
    c11_full_vecu128 = trunc_full::<VecU128, 64, 0> @ 18;
    c11_full_str = trunc_full::<Str, 32, 6> @ 10;
    c11_full_arru32x3 = trunc_full::<ArrU32x3, 16, 0> @ 5;
    c11_full_tup3 = trunc_full::<Tup3, 32, 0> @ 10;
    c11_full_rangeincl = trunc_full::<RangeInclU32, 16, 0> @ 4;
    c11_full_boundu32 = trunc_full::<BoundU32, 16, 0> @ 4;
    c11_full_cf = trunc_full::<CfU8U16, 16, 0> @ 4;
    c11_full_deeps = trunc_full::<DeepSVec, 32, 0> @ 6;
    c11_full_zeros = trunc_full::<ZeroSC, 16, 0> @ 6;
    c11_full_e5 = trunc_full::<E5C, 48, 0> @ 6;
    c11_full_optvec = trunc_full::<OptVecU16, 32, 0> @ 5;
    c11_io_vecu64_p1 = trunc_full_io::<VecU64, 48, 0, 1> @ 12;
    c11_io_vecu32_p3 = trunc_full_io::<VecU32, 32, 0, 3> @ 8;
    c11_io_boxu32_p1 = trunc_full_io::<BoxU32, 32, 0, 1> @ 8;
    c11_io_arru32x0_p1 = trunc_full_io::<ArrU32x0, 16, 0, 1> @ 8;
    c11_io_zeros_p1 = trunc_full_io::<ZeroSC, 16, 0, 1> @ 8;
    c11_io_deeps_p1 = trunc_full_io::<DeepSVec, 32, 0, 1> @ 8;
    c11_io_vecvec_p1 = trunc_full_io::<VecVecU16, 48, 4, 1> @ 8;
    c11_io_str_p0 = trunc_full_io::<Str, 32, 5, 0> @ 12;
    c11_eps_u32 = trunc_eps::<U32, 16, 0> @ 4;
    c11_eps_bool = trunc_eps::<Bool, 16, 0> @ 4;
    c11_eps_char = trunc_eps::<Char, 16, 0> @ 4;
    c11_eps_nzu32 = trunc_eps::<NzU32, 16, 0> @ 4;
    c11_eps_optu32 = trunc_eps::<OptU32, 16, 0> @ 4;
    c11_eps_vecu32 = trunc_eps::<VecU32, 32, 0> @ 6;
    c11_eps_vecu128 = trunc_eps::<VecU128, 64, 0> @ 18;
    c11_eps_str = trunc_eps::<Str, 32, 6> @ 10;
    c11_eps_vecvec = trunc_eps::<VecVecU16, 48, 5> @ 5;
    c11_eps_vecstring = trunc_eps::<VecString, 48, 5> @ 8;
    c11_eps_arru32x3 = trunc_eps::<ArrU32x3, 16, 0> @ 5;
    c11_eps_arrstring = trunc_eps::<ArrStringx2, 48, 2> @ 8;
    c11_eps_tup3 = trunc_eps::<Tup3, 32, 0> @ 10;
    c11_eps_rangeincl = trunc_eps::<RangeInclU32, 16, 0> @ 4;
    c11_eps_boundu32 = trunc_eps::<BoundU32, 16, 0> @ 4;
    c11_eps_cf = trunc_eps::<CfU8U16, 16, 0> @ 4;
    c11_eps_deeps = trunc_eps::<DeepSVec, 32, 0> @ 6;
    c11_eps_zeros = trunc_eps::<ZeroSC, 16, 0> @ 6;
    c11_eps_e5 = trunc_eps::<E5C, 48, 0> @ 6;
    c11_eps_optvec = trunc_eps::<OptVecU16, 32, 0> @ 5;
    c11_eps_holdzeros = trunc_eps::<HoldZeroS, 32, 0> @ 6;
    c11_exact_vecu32_k9 = trunc_eps_exact::<VecU32, 32, 0, 9> @ 12;
    c11_exact_vecu32_k8 = trunc_eps_exact::<VecU32, 32, 0, 8> @ 12;
    c11_exact_vecu32_k3 = trunc_eps_exact::<VecU32, 32, 0, 3> @ 12;
    c11_exact_zeros_k7 = trunc_eps_exact::<ZeroSC, 16, 0, 7> @ 12;
    c11_exact_zeros_k0 = trunc_eps_exact::<ZeroSC, 16, 0, 0> @ 12;
    c11_exact_str_k9 = trunc_eps_exact::<Str, 32, 6, 9> @ 12;
    c11_exact_arru32x3_k11 = trunc_eps_exact::<ArrU32x3, 16, 0, 11> @ 14;
    c11_exact_tup3_k23 = trunc_eps_exact::<Tup3, 32, 0, 23> @ 26;
    c11_exact_deeps_k11 = trunc_eps_exact::<DeepSVec, 32, 0, 11> @ 14;
);

include!("c11_cuts.rs");

/// Reachability twin: the complete stream IS deserialized.
#[cfg_attr(kani, kani::proof)] #[cfg_attr(kani, kani::unwind(6))]
pub fn c11_twin_reach() {
    let x = <VecU32 as Case>::make(0);
    let (s, n) = ser_inner::<VecU32, 32, 0>(&x);
    let k: usize = any();
    assume(k <= n);
    let mut rd = Exact::new(&s.buf[..k]);
    let mut rp = ReaderWithPos::new(&mut rd);
    let r = <Vec<u32>>::_deserialize_full_inner(&mut rp);
    let ok = r.is_ok();
    core::mem::forget(r);
    assert!(!ok, "TWIN: must be violated (k == n is the complete stream)");
}
