//! Generator of the golden digests and corpus (run once against the PINNED
//! build: `bin/check golden`; the output is committed under harness/golden).
use vh::hashes::digests;
use vh::rt::Case;

macro_rules! dump {
    ($($c:ident),* $(,)?) => {$(
        { let (t, a) = digests::<<vh::cases::$c as Case>::T>();
          println!("CASE {} {:#018x} {:#018x} {}", stringify!($c), t, a, core::any::type_name::<<vh::cases::$c as Case>::T>()); }
    )*};
}
macro_rules! dump_ty {
    ($($n:literal : $t:ty),* $(,)?) => {$(
        { let (t, a) = digests::<$t>(); println!("TYPE {} {:#018x} {:#018x} {}", $n, t, a, core::any::type_name::<$t>()); }
    )*};
}
include!("../cases_list.rs");
#[cfg(kani)]
fn main() {}
#[cfg(not(kani))]
fn main() {
    let dir = std::env::args().nth(1).expect("corpus dir");
    std::fs::create_dir_all(&dir).unwrap();
    for_all_cases!(dump);
    use vh::mutants as mu;
    dump_ty!("mu_b_M": mu::b::M, "mu_rn_M": mu::rn::M, "mu_sw_M": mu::sw::M, "mu_ty_M": mu::ty::M, "mu_tf_M": mu::tf::M, "mu_zc_M": mu::zc::M,
             "mu_dc_M": mu::dc::M, "mu_nm_N": mu::nm::N, "mu_tu_M": mu::tu::M, "mu_xf_M": mu::xf::M, "mu_z0_Z": mu::z0::Z, "mu_z8_Z": mu::z8::Z,
             "mu_z16_Z": mu::z16::Z, "mu_zs_Z": mu::zs::Z, "mu_g_G_u32": mu::g::G<u32>, "mu_k_K_2": mu::k::K<2>, "mu_k_K_3": mu::k::K<3>,
             "mu_kq_K_2": mu::kq::K<2>, "mu_e0_E": mu::e0::E, "mu_er_E": mu::er::E, "mu_eo_E": mu::eo::E, "mu_et_E": mu::et::E, "mu_es_E": mu::es::E,
             "slice_u32": &[u32], "boxslice_u32": Box<[u32]>);
    vh::corpus::write_all(std::path::Path::new(&dir));
}
