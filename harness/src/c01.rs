//! C01 — full-copy round trip.  The listed instances are generated into
//! inst.rs (`i_c01_*`, body `rt::full_rt`); this file holds the twin.
use crate::cases::*;
use crate::rt::*;
use crate::sym::any;
use epserde::deser::{DeserializeInner, SliceWithPos};
use epserde::ser::{SerializeInner, WriterWithPos};
use crate::env::Sink;

/// Reachability twin: a round trip whose final assertion is wrong must FAIL.
#[cfg_attr(kani, kani::proof)]
#[cfg_attr(kani, kani::unwind(4))]
pub fn c01_twin_reach() {
    let x: u32 = any();
    let mut s = Sink::<16>::new();
    let mut w = WriterWithPos::new(&mut s);
    SerializeInner::_serialize_inner(&x, &mut w).unwrap();
    let mut sl = SliceWithPos::new(&s.buf[..4]);
    let y = u32::_deserialize_full_inner(&mut sl).unwrap();
    assert!(y != x, "TWIN: must be violated");
}

