//! In-memory file system environment for the file-backed entry points
//! (C08/C09).  Under Kani the std functions named in `fs_stubs!` are replaced
//! by these stubs (every one is part of the claim and listed in the evidence);
//! natively (replay) `put_file` writes a real temporary file instead.
use std::fs::{File, Metadata};
use std::io;
use std::path::Path;

/// capacity of the in-memory files: 64, so that CBMC keeps the arrays field-sensitive
/// (with 128 cells every byte of the file — incl. the type-name length — becomes symbolic)
pub const FCAP: usize = 64;
pub static mut FILE_LEN: usize = 0;
pub static mut FILE_DATA: [u8; FCAP] = [0; FCAP];
pub static mut FILE_POS: usize = 0;
/// bytes the metadata over-reports (the read then ends early: I/O error path of the loaders)
pub static mut FILE_OVER: usize = 0;
/// make every read of the file fail with an I/O error
pub static mut FILE_FAIL_READ: bool = false;
/// bytes handed to `<File as Write>::write` (store)
pub static mut OUT_DATA: [u8; FCAP] = [0; FCAP];
pub static mut OUT_LEN: usize = 0;
/// length of the output file (it may pre-exist with older, longer contents)
pub static mut OUT_FILE_LEN: usize = 0;
/// last block handed out by the stubbed `std::alloc::alloc`
pub static mut LAST_ALLOC: *mut u8 = core::ptr::null_mut();
pub static mut LAST_SIZE: usize = 0;
pub static mut LAST_ALIGN: usize = 0;
pub static mut N_ALLOC: usize = 0;
/// how many times the block recorded in LAST_ALLOC was handed back to the allocator
pub static mut FREED: usize = 0;

extern "C" {
    fn free(p: *mut core::ffi::c_void);
}
/// Stub for `std::alloc::dealloc` (every Box/Vec drop goes through it): counts
/// releases of the recorded block, then frees for real (CBMC's `free` model, so
/// double/invalid frees remain failed checks).
/// Box/Vec drops reach the allocator through `<Global as Allocator>::deallocate`.
#[cfg(kani)]
pub unsafe fn global_deallocate_stub(_g: &std::alloc::Global, p: core::ptr::NonNull<u8>, l: std::alloc::Layout) {
    if l.size() != 0 {
        dealloc_stub(p.as_ptr(), l);
    }
}
pub unsafe fn dealloc_stub(p: *mut u8, _l: std::alloc::Layout) {
    if p == LAST_ALLOC && !p.is_null() {
        FREED += 1;
    }
    free(p as *mut core::ffi::c_void);
}

pub fn metadata_stub(_p: &Path) -> io::Result<Metadata> {
    Ok(unsafe { core::mem::zeroed() })
}
pub fn len_stub(_m: &Metadata) -> u64 {
    unsafe { (FILE_LEN + FILE_OVER) as u64 }
}
pub fn open_stub<P: AsRef<Path>>(_p: P) -> io::Result<File> {
    use std::os::fd::FromRawFd;
    Ok(unsafe { File::from_raw_fd(3) })
}
/// `File::create` = open for writing, create, TRUNCATE.
pub fn create_stub<P: AsRef<Path>>(_p: P) -> io::Result<File> {
    use std::os::fd::FromRawFd;
    unsafe { OUT_LEN = 0; OUT_FILE_LEN = 0; }
    Ok(unsafe { File::from_raw_fd(4) })
}
// ---- model of OpenOptions (in case the code under test opens the output that way) ----
pub static mut OO_TRUNCATE: bool = false;
pub static mut OO_APPEND: bool = false;
pub fn oo_new_stub() -> std::fs::OpenOptions {
    unsafe { OO_TRUNCATE = false; OO_APPEND = false; core::mem::zeroed() }
}
pub fn oo_flag_stub(o: &mut std::fs::OpenOptions, _b: bool) -> &mut std::fs::OpenOptions { o }
pub fn oo_truncate_stub(o: &mut std::fs::OpenOptions, b: bool) -> &mut std::fs::OpenOptions {
    unsafe { OO_TRUNCATE = b; }
    o
}
pub fn oo_append_stub(o: &mut std::fs::OpenOptions, b: bool) -> &mut std::fs::OpenOptions {
    unsafe { OO_APPEND = b; }
    o
}
pub fn oo_open_stub<P: AsRef<Path>>(_o: &std::fs::OpenOptions, _p: P) -> io::Result<File> {
    use std::os::fd::FromRawFd;
    unsafe {
        if OO_TRUNCATE { OUT_FILE_LEN = 0; }
        OUT_LEN = if OO_APPEND { OUT_FILE_LEN } else { 0 };
    }
    Ok(unsafe { File::from_raw_fd(4) })
}
/// Delivers the whole request (short reads are C14's subject).
pub fn read_stub(_f: &mut File, buf: &mut [u8]) -> io::Result<usize> {
    unsafe {
        if FILE_FAIL_READ {
            return Err(io::Error::from(io::ErrorKind::Other));
        }
        let rem = FILE_LEN - FILE_POS;
        let n = if buf.len() < rem { buf.len() } else { rem };
        buf[..n].copy_from_slice(&FILE_DATA[FILE_POS..FILE_POS + n]);
        FILE_POS += n;
        Ok(n)
    }
}
/// The same file model without the failing branch: the returned `Result` is `Ok` on every
/// path, so CBMC folds the discriminant and never walks `io::Error`'s drop glue (whose
/// `Box<dyn Error>` payload fans out into every error type of the program, including
/// anyhow's backtrace-carrying wrappers) inside `read_exact`'s retry loop.
pub fn read_ok_stub(_f: &mut File, buf: &mut [u8]) -> io::Result<usize> {
    unsafe {
        let rem = FILE_LEN - FILE_POS;
        let n = if buf.len() < rem { buf.len() } else { rem };
        buf[..n].copy_from_slice(&FILE_DATA[FILE_POS..FILE_POS + n]);
        FILE_POS += n;
        Ok(n)
    }
}
/// `File` does not override `read_exact`; the provided method's retry loop asks the
/// bit-packed `io::Error` whether it is `Interrupted`, which CBMC cannot fold.  The in-memory
/// file never reports `Interrupted` (C14 covers interrupted reads), so the answer is `false`.
pub fn not_interrupted_stub(_e: &io::Error) -> bool {
    false
}
/// `?` on an `io::Error` inside the loaders converts it with anyhow's blanket `From`, which
/// walks `dyn Error` machinery (provide/source over every implementor) that CBMC cannot
/// digest.  The replacement keeps the control flow (an `anyhow::Error` is produced, the
/// error is consumed) and drops the introspection; it applies to every error type converted
/// by `?` in the loaders (the concrete error kind is therefore not observable in these harnesses).
pub static mut SPARE_ERROR: Option<anyhow::Error> = None;
pub fn anyhow_from_stub<E: std::error::Error + Send + Sync + 'static>(e: E) -> anyhow::Error {
    core::mem::forget(e);
    // an error object prepared by the harness before the loader runs, if any
    match unsafe { (*core::ptr::addr_of_mut!(SPARE_ERROR)).take() } {
        Some(x) => x,
        None => anyhow::Error::msg("error (converted by the harness stub)"),
    }
}
/// `BufReader<File>` fills its buffer through `read_buf` (unstable API, Kani's toolchain only).
#[cfg(kani)]
pub fn read_buf_stub(_f: &mut File, mut cursor: std::io::BorrowedCursor<'_, u8>) -> io::Result<()> {
    unsafe {
        let rem = FILE_LEN - FILE_POS;
        let n = if cursor.capacity() < rem { cursor.capacity() } else { rem };
        cursor.append(&FILE_DATA[FILE_POS..FILE_POS + n]);
        FILE_POS += n;
        Ok(())
    }
}
/// `BufReader::new` allocates an 8 KiB buffer, which CBMC drags through every
/// read; the capacity is not observable, so 64 bytes are used instead.
pub fn bufreader_new_stub<R: io::Read>(inner: R) -> io::BufReader<R> {
    io::BufReader::with_capacity(64, inner)
}
pub fn bufwriter_new_stub<W: io::Write>(inner: W) -> io::BufWriter<W> {
    io::BufWriter::with_capacity(64, inner)
}
pub fn write_stub(_f: &mut File, buf: &[u8]) -> io::Result<usize> {
    unsafe {
        let n = buf.len();
        assert!(OUT_LEN + n <= FCAP, "HARNESS: output fits");
        OUT_DATA[OUT_LEN..OUT_LEN + n].copy_from_slice(buf);
        OUT_LEN += n;
        if OUT_LEN > OUT_FILE_LEN { OUT_FILE_LEN = OUT_LEN; }
        Ok(n)
    }
}
pub fn flush_stub(_f: &mut File) -> io::Result<()> {
    Ok(())
}
pub fn close_stub(_fd: &mut std::os::fd::OwnedFd) {}
pub fn bt_stub() -> std::backtrace::Backtrace {
    std::backtrace::Backtrace::disabled()
}
/// Records the block and pre-fills it with 0xAA, so that "the tail is zero"
/// can only hold if the loader zeroes it.
pub unsafe fn alloc_stub(l: std::alloc::Layout) -> *mut u8 {
    let p = crate::env::cbmc_malloc(l.size());
    core::ptr::write_bytes(p, 0xAA, l.size());
    // every Vec/String/Box allocation passes through here; the backing block of
    // `load_mem` is the over-aligned one (64 on the pinned tree; anything >= 16 is
    // recorded so that a lowered alignment is seen by the assertions, not hidden)
    if l.align() >= 16 {
        LAST_ALLOC = p;
        LAST_SIZE = l.size();
        LAST_ALIGN = l.align();
        N_ALLOC += 1;
        FREED = 0;
    }
    p
}

/// Install `data[..n]` as the contents of the file; returns the path to load.
pub fn put_file(data: &[u8], n: usize) -> std::path::PathBuf {
    #[cfg(kani)]
    {
        unsafe {
            FILE_DATA = [0; FCAP];
            assert!(data.len() <= FCAP && n <= data.len(), "HARNESS: file fits");
            FILE_DATA[..data.len()].copy_from_slice(data);
            FILE_LEN = n;
            FILE_POS = 0;
        }
        std::path::PathBuf::new()
    }
    #[cfg(not(kani))]
    {
        let p = std::env::temp_dir().join(format!("vh-replay-{}.bin", std::process::id()));
        std::fs::write(&p, &data[..n]).unwrap();
        p
    }
}

#[macro_export]
macro_rules! fs_harness {
    ($(#[$m:meta])* $name:ident @ $unw:literal => $body:block) => {
        $crate::fs_harness_r!(crate::fsenv::read_stub; $(#[$m])* $name @ $unw => $body);
    };
}
/// `fs_harness!` with the stub for `<File as Read>::read` chosen by the caller.
#[macro_export]
macro_rules! fs_harness_r {
    ($read:path; $(#[$m:meta])* $name:ident @ $unw:literal => $body:block) => {
        #[cfg_attr(kani, kani::proof)]
        #[cfg_attr(kani, kani::unwind($unw))]
        #[cfg_attr(kani, kani::stub(std::path::Path::metadata, crate::fsenv::metadata_stub))]
        #[cfg_attr(kani, kani::stub(std::fs::Metadata::len, crate::fsenv::len_stub))]
        #[cfg_attr(kani, kani::stub(std::fs::File::open, crate::fsenv::open_stub))]
        #[cfg_attr(kani, kani::stub(std::fs::File::create, crate::fsenv::create_stub))]
        #[cfg_attr(kani, kani::stub(std::fs::OpenOptions::new, crate::fsenv::oo_new_stub))]
        #[cfg_attr(kani, kani::stub(std::fs::OpenOptions::write, crate::fsenv::oo_flag_stub))]
        #[cfg_attr(kani, kani::stub(std::fs::OpenOptions::create, crate::fsenv::oo_flag_stub))]
        #[cfg_attr(kani, kani::stub(std::fs::OpenOptions::read, crate::fsenv::oo_flag_stub))]
        #[cfg_attr(kani, kani::stub(std::fs::OpenOptions::truncate, crate::fsenv::oo_truncate_stub))]
        #[cfg_attr(kani, kani::stub(std::fs::OpenOptions::append, crate::fsenv::oo_append_stub))]
        #[cfg_attr(kani, kani::stub(std::fs::OpenOptions::open, crate::fsenv::oo_open_stub))]
        #[cfg_attr(kani, kani::stub(<std::fs::File as std::io::Read>::read, $read))]
        #[cfg_attr(kani, kani::stub(std::io::Error::is_interrupted, crate::fsenv::not_interrupted_stub))]
        #[cfg_attr(kani, kani::stub(<anyhow::Error as core::convert::From<std::io::Error>>::from, crate::fsenv::anyhow_from_stub))]
        #[cfg_attr(kani, kani::stub(<std::fs::File as std::io::Read>::read_buf, crate::fsenv::read_buf_stub))]
        #[cfg_attr(kani, kani::stub(std::io::BufReader::new, crate::fsenv::bufreader_new_stub))]
        #[cfg_attr(kani, kani::stub(std::io::BufWriter::new, crate::fsenv::bufwriter_new_stub))]
        #[cfg_attr(kani, kani::stub(<std::fs::File as std::io::Write>::write, crate::fsenv::write_stub))]
        #[cfg_attr(kani, kani::stub(<std::fs::File as std::io::Write>::flush, crate::fsenv::flush_stub))]
        #[cfg_attr(kani, kani::stub(<std::os::fd::OwnedFd as core::ops::Drop>::drop, crate::fsenv::close_stub))]
        #[cfg_attr(kani, kani::stub(std::backtrace::Backtrace::capture, crate::fsenv::bt_stub))]
        #[cfg_attr(kani, kani::stub(std::alloc::alloc, crate::fsenv::alloc_stub))]
        #[cfg_attr(kani, kani::stub(std::alloc::dealloc, crate::fsenv::dealloc_stub))]
        #[cfg_attr(kani, kani::stub(<std::alloc::Global as core::alloc::Allocator>::deallocate, crate::fsenv::global_deallocate_stub))]
        #[cfg_attr(kani, kani::stub(core::str::from_utf8, crate::env::from_utf8_stub))]
        $(#[$m])*
        pub fn $name() $body
    };
}
