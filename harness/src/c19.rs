//! C19 — AlignedCursor vs std::io::Cursor.
use crate::env::*;
use crate::sym::{self, any, assume};
use epserde::prelude::*;
use std::io::{Cursor, Read, Seek, SeekFrom, Write};

fn sym_seek() -> SeekFrom {
    let which: u8 = any();
    assume(which < 3);
    match which {
        0 => SeekFrom::Start(any()),
        1 => SeekFrom::Current(any()),
        _ => SeekFrom::End(any()),
    }
}

/// (a) seek on an empty cursor at an arbitrary position: every SeekFrom.
#[cfg_attr(kani, kani::proof)]
pub fn c19_seek_empty_a16() {
    let mut ac = AlignedCursor::<maligned::A16>::new();
    let mut sc = Cursor::new(Vec::<u8>::new());
    let pos: usize = any();
    ac.set_position(pos);
    sc.set_position(pos as u64);
    let sf = sym_seek();
    let ra = ac.seek(sf);
    let rs = sc.seek(sf);
    match (&ra, &rs) {
        (Ok(a), Ok(b)) => {
            assert!(a == b, "C19: seek returns the same offset as std");
        }
        (Err(_), Err(_)) => {}
        _ => {
            assert!(false, "C19: seek Ok/Err agrees with std");
        }
    }
    assert!(ac.position() as u64 == sc.position(), "C19: position after seek agrees with std");
    crate::cover!(ra.is_ok(), "ok");
    crate::cover!(ra.is_err(), "err");
    core::mem::forget(ra);
    core::mem::forget(rs);
}
