//! C19 — AlignedCursor vs std::io::Cursor<Vec<u8>>.
//! (a) seek: all positions x all SeekFrom values against the real std cursor.
//! (b) one step (write / read) from every reachable state of a (len,pos,n) grid
//!     with symbolic byte contents, compared with the real std cursor run on the
//!     same inputs, plus the representation invariant (capacity rounding, zero
//!     tail, storage alignment) re-established on the post-state.
//! (c) short histories (write, set_position P, write, seek End(symbolic), read) for P in {1, 3, 17}.
use crate::env::*;
use crate::sym::{self, any, assume, Sym};
use epserde::prelude::*;
use maligned::{A16, A64, Alignment};
use std::io::{Cursor, Read, Seek, SeekFrom, Write};

fn sym_seek() -> SeekFrom {
    let which: u8 = any();
    assume(which < 3);
    match which {
        0 => SeekFrom::Start(any()),
        1 => SeekFrom::Current(any()),
        _ => SeekFrom::End(any()),
    }
}

fn seek_cmp<T: Alignment, const L: usize>() {
    let init: [u8; L] = [7u8; L];
    let mut ac = AlignedCursor::<T>::new();
    let mut sc = Cursor::new(Vec::<u8>::new());
    if L > 0 {
        assert!(ac.write(&init).is_ok(), "HARNESS: initial write");
        let _ = sc.write(&init);
    }
    let pos: usize = any();
    ac.set_position(pos);
    sc.set_position(pos as u64);
    let sf = sym_seek();
    let ra = ac.seek(sf);
    let rs = sc.seek(sf);
    match (&ra, &rs) {
        (Ok(a), Ok(b)) => { assert!(a == b, "C19: seek returns the same offset as std"); }
        (Err(_), Err(_)) => {}
        _ => { assert!(false, "C19: seek Ok/Err agrees with std"); }
    }
    assert!(ac.position() as u64 == sc.position(), "C19: position after seek agrees with std");
    assert!(ac.len() == sc.get_ref().len(), "C19: seek does not change the length");
    crate::cover!(ra.is_ok(), "ok");
    crate::cover!(ra.is_err(), "err");
    let spos = ac.stream_position();
    assert!(matches!(spos, Ok(p) if p == ac.position() as u64), "C19: stream_position reports the position");
    core::mem::forget(ra);
    core::mem::forget(rs);
    core::mem::forget(spos);
}
#[cfg_attr(kani, kani::proof)] #[cfg_attr(kani, kani::unwind(3))]
pub fn c19_seek_empty_a16() { seek_cmp::<A16, 0>() }
#[cfg_attr(kani, kani::proof)] #[cfg_attr(kani, kani::unwind(3))]
pub fn c19_seek_len5_a16() { seek_cmp::<A16, 5>() }
#[cfg_attr(kani, kani::proof)] #[cfg_attr(kani, kani::unwind(3))]
pub fn c19_seek_len17_a64() { seek_cmp::<A64, 17>() }

/// Representation invariant + observable state equals std's, on (ac, sc).
fn same_state<T: Alignment>(ac: &mut AlignedCursor<T>, sc: &Cursor<Vec<u8>>) {
    assert!(ac.position() as u64 == sc.position(), "C19: position agrees with std");
    assert!(ac.len() == sc.get_ref().len(), "C19: length agrees with std");
    assert!(ac.is_empty() == sc.get_ref().is_empty(), "C19: is_empty agrees with std");
    let n = ac.len();
    let k: usize = any();
    assume(k < n);
    let ab = ac.as_bytes();
    assert!(ab.len() == n, "C19: as_bytes has the cursor's length");
    assert!(ab[k] == sc.get_ref()[k], "C19: contents agree with std (incl. zero-filled gap)");
    assert!(ab.as_ptr() as usize % core::mem::align_of::<T>() == 0, "C19: storage starts at an address aligned to the alignment type");
}

/// Invariant on the consumed cursor: capacity is the length rounded up to the
/// unit and the tail beyond the length is zero.
fn invariant<T: Alignment>(ac: AlignedCursor<T>) {
    let unit = core::mem::size_of::<T>();
    let (v, len) = ac.into_parts();
    let cap = v.len() * unit;
    assert!(cap >= len, "C19: storage covers the length");
    let bytes = unsafe { core::slice::from_raw_parts(v.as_ptr() as *const u8, cap) };
    let j: usize = any();
    assume(j >= len && j < cap);
    assert!(bytes[j] == 0, "C19: bytes beyond the length are zero");
}

/// One write step from state (init[0..L], POS) with WL symbolic bytes.
fn write_step<T: Alignment, const L: usize, const POS: usize, const WL: usize>()
where
    [u8; L]: Sym,
    [u8; WL]: Sym,
{
    let init: [u8; L] = any();
    let mut ac = AlignedCursor::<T>::new();
    let mut sc = Cursor::new(Vec::<u8>::new());
    if L > 0 {
        assert!(matches!(ac.write(&init), Ok(n) if n == L), "HARNESS: initial write");
        let _ = sc.write(&init);
    }
    ac.set_position(POS);
    sc.set_position(POS as u64);
    let data: [u8; WL] = any();
    let ra = ac.write(&data);
    let rs = sc.write(&data);
    match (&ra, &rs) {
        (Ok(a), Ok(b)) => { assert!(a == b, "C19: write returns the same count as std"); }
        _ => { assert!(false, "C19: write succeeds like std"); }
    }
    core::mem::forget(ra);
    core::mem::forget(rs);
    same_state(&mut ac, &sc);
    assert!(ac.flush().is_ok(), "C19: flush succeeds");
    invariant(ac);
}

/// One read step from state (init[0..L], POS) into a buffer of RL bytes.
fn read_step<T: Alignment, const L: usize, const POS: usize, const RL: usize>()
where
    [u8; L]: Sym,
{
    let init: [u8; L] = any();
    let mut ac = AlignedCursor::<T>::new();
    let mut sc = Cursor::new(Vec::<u8>::new());
    if L > 0 {
        assert!(matches!(ac.write(&init), Ok(n) if n == L), "HARNESS: initial write");
        let _ = sc.write(&init);
    }
    ac.set_position(POS);
    sc.set_position(POS as u64);
    let mut ba = [0xEEu8; RL];
    let mut bs = [0xEEu8; RL];
    let ra = ac.read(&mut ba);
    let rs = sc.read(&mut bs);
    match (&ra, &rs) {
        (Ok(a), Ok(b)) => { assert!(a == b, "C19: read returns the same count as std"); }
        _ => { assert!(false, "C19: read succeeds like std"); }
    }
    core::mem::forget(ra);
    core::mem::forget(rs);
    let k: usize = any();
    assume(k < RL);
    assert!(ba[k] == bs[k], "C19: read delivers the same bytes as std (and leaves the rest of the buffer alone)");
    same_state(&mut ac, &sc);
}

macro_rules! wstep {
    ($($name:ident : $t:ty, $l:literal, $pos:literal, $wl:literal);* $(;)?) => {$(
        #[cfg_attr(kani, kani::proof)] #[cfg_attr(kani, kani::unwind(72))]
        pub fn $name() { write_step::<$t, $l, $pos, $wl>() }
    )*};
}
macro_rules! rstep {
    ($($name:ident : $t:ty, $l:literal, $pos:literal, $rl:literal);* $(;)?) => {$(
        #[cfg_attr(kani, kani::proof)] #[cfg_attr(kani, kani::unwind(8))]
        pub fn $name() { read_step::<$t, $l, $pos, $rl>() }
    )*};
}
include!("c19_grid.rs");

/// (c) three-step history from the empty cursor: write a, set_position p, write b, seek, read.
fn history<const P: usize>() {
    let mut ac = AlignedCursor::<A16>::new();
    let mut sc = Cursor::new(Vec::<u8>::new());
    let a: [u8; 3] = any();
    let _ = ac.write(&a);
    let _ = sc.write(&a);
    let p: usize = P;
    ac.set_position(p);
    sc.set_position(p as u64);
    let b: [u8; 2] = any();
    let ra = ac.write(&b);
    let rs = sc.write(&b);
    assert!(ra.is_ok() == rs.is_ok(), "C19: write succeeds like std");
    core::mem::forget(ra);
    core::mem::forget(rs);
    let off: i64 = any();
    assume(off >= -8 && off <= 8);
    let sa = ac.seek(SeekFrom::End(off));
    let ss = sc.seek(SeekFrom::End(off));
    assert!(sa.is_ok() == ss.is_ok(), "C19: seek Ok/Err agrees with std");
    core::mem::forget(sa);
    core::mem::forget(ss);
    let mut ba = [0u8; 4];
    let mut bs = [0u8; 4];
    let na = ac.read(&mut ba);
    let ns = sc.read(&mut bs);
    assert!(matches!((&na, &ns), (Ok(x), Ok(y)) if x == y), "C19: read returns the same count as std");
    core::mem::forget(na);
    core::mem::forget(ns);
    let k: usize = any();
    assume(k < 4);
    assert!(ba[k] == bs[k], "C19: read delivers the same bytes as std");
    same_state(&mut ac, &sc);
}

#[cfg_attr(kani, kani::proof)] #[cfg_attr(kani, kani::unwind(24))]
pub fn c19_history_p1() { history::<1>() }
#[cfg_attr(kani, kani::proof)] #[cfg_attr(kani, kani::unwind(24))]
pub fn c19_history_p3() { history::<3>() }
#[cfg_attr(kani, kani::proof)] #[cfg_attr(kani, kani::unwind(24))]
pub fn c19_history_p17() { history::<17>() }

/// Reachability twin.
#[cfg_attr(kani, kani::proof)] #[cfg_attr(kani, kani::unwind(8))]
pub fn c19_twin_reach() {
    let mut ac = AlignedCursor::<A16>::new();
    let d: [u8; 2] = any();
    let _ = ac.write(&d);
    let ab = ac.as_bytes();
    assert!(ab[0] == 0, "TWIN: must be violated (contents are what was written)");
}
