//! C08 — file loaders (partial: `load_mem`, `load_full`, `store` under the
//! file-system stubs of fsenv.rs; `load_mmap`/`mmap`, the flag sets and
//! cross-thread reads are outside — see DESIGN.md).
use crate::cases::*;
use crate::env::*;
use crate::fsenv::*;
use crate::rt::{Borrows, Case};
use crate::sym::{self, any, assume};
use epserde::deser::{Deserialize, MemCase};
use epserde::prelude::*;
use epserde::ser::Serialize;

/// `load_mem` of a file holding the real serialization of a symbolic value:
/// equals ε-copy of the file bytes (== the value), region aligned to 64, size =
/// length rounded up to 64, zero tail, borrowed parts inside the region, result
/// unchanged after moving/boxing the case.
pub fn load_mem_ok<C: Case, const TRAIL: usize>()
where
    C::T: Serialize + Deserialize,
{
    let x = C::make(0);
    let mut s = Sink::<64>::new();
    let n = match x.serialize(&mut s) { Ok(n) => n, Err(_) => { assert!(false, "HARNESS: serializes"); 0 } };
    // optional trailing bytes after the serialized value (file longer than the stream)
    let total = n + TRAIL;
    assert!(total <= 64, "HARNESS: file fits");
    let path = put_file(&s.buf, total);
    let r = <C::T>::load_mem(&path);
    match r {
        Ok(case) => {
            crate::cover!(true, "loaded");
            assert!(C::same_eps(&x, &*case), "C08: load_mem yields the structure obtained by deserializing the file's bytes");
            // LAST_* are fed by the allocation stub under Kani and by the replay
            // program's global allocator natively (blocks with alignment >= 16)
            unsafe {
                let p = LAST_ALLOC as usize;
                assert!(N_ALLOC >= 1 && p != 0, "C08: the backing region is an over-aligned heap block (none with alignment >= 16 was allocated)");
                assert!(p % 64 == 0 && LAST_ALIGN >= 64, "C08: backing region is aligned for the largest supported unit");
                assert!(LAST_SIZE % 64 == 0 && LAST_SIZE >= total && LAST_SIZE < total + 64, "C08: region size is the file length rounded up to 64");
                let k: usize = any();
                assume(k >= total && k < LAST_SIZE);
                assert!(*LAST_ALLOC.add(k) == 0, "C08: region is zero-filled from the end of the file to the rounded-up length");
                let mut bs = Borrows::new();
                C::borrows(&*case, &mut bs);
                let mut i = 0;
                while i < 4 {
                    if i < bs.n {
                        assert!(bs.b[i].ptr >= p && bs.b[i].ptr + bs.b[i].bytes <= p + LAST_SIZE, "C08: every borrowed part lies inside the backing region owned by the result");
                        assert!(bs.b[i].ptr % bs.b[i].align == 0, "C08: borrowed part is aligned");
                    }
                    i += 1;
                }
            }
            // moving and boxing keep the result valid
            let moved = case;
            assert!(C::same_eps(&x, moved.as_ref()), "C08: result stays valid when moved");
            let boxed = Box::new(moved);
            assert!(C::same_eps(&x, &**boxed), "C08: result stays valid when boxed");
            core::mem::forget(boxed);
        }
        Err(e) => { core::mem::forget(e); assert!(false, "C08: load_mem of a valid file succeeds"); }
    }
}

/// `load_full` == `deserialize_full` of the file bytes.
pub fn load_full_ok<C: Case>()
where
    C::T: Serialize + Deserialize,
{
    let x = C::make(0);
    let mut s = Sink::<64>::new();
    let n = match x.serialize(&mut s) { Ok(n) => n, Err(_) => { assert!(false, "HARNESS: serializes"); 0 } };
    let path = put_file(&s.buf, n);
    let r = <C::T>::load_full(&path);
    match r {
        Ok(y) => { crate::cover!(true, "loaded"); assert!(C::same(&x, &y), "C08: load_full yields the value obtained by deserializing the file's bytes"); }
        Err(e) => { core::mem::forget(e); assert!(false, "C08: load_full of a valid file succeeds"); }
    }
}

/// `store` writes exactly the serialized bytes.
pub fn store_ok<C: Case>()
where
    C::T: Serialize,
{
    let x = C::make(0);
    let mut s = Sink::<64>::new();
    let n = match x.serialize(&mut s) { Ok(n) => n, Err(_) => { assert!(false, "HARNESS: serializes"); 0 } };
    // the destination may already exist with older (longer or shorter) contents
    let old: usize = any();
    assume(old <= FCAP);
    #[cfg(kani)]
    unsafe {
        OUT_FILE_LEN = old;
        OUT_DATA = [0xEE; FCAP];
        crate::cover!(old > 50, "destination pre-exists with longer contents");
    }
    #[cfg(kani)]
    let path = "out";
    // native replay: the same scenario on a real file
    #[cfg(not(kani))]
    let path = {
        let p = std::env::temp_dir().join(format!("vh-replay-out-{}.bin", std::process::id()));
        std::fs::write(&p, vec![0xEEu8; old]).unwrap();
        p
    };
    let r = x.store(&path);
    assert!(r.is_ok(), "C08: store succeeds on a writable file");
    core::mem::forget(r);
    #[cfg(kani)]
    unsafe {
        assert!(OUT_LEN == n, "C08: store writes exactly as many bytes as serialize");
        assert!(OUT_FILE_LEN == n, "C08: after store the file holds exactly the serialized bytes (no stale tail of an older file)");
        let k: usize = any();
        assume(k < n);
        assert!(OUT_DATA[k] == s.buf[k], "C08: store writes exactly the serialized bytes");
    }
    #[cfg(not(kani))]
    {
        let got = std::fs::read(&path).unwrap();
        let _ = std::fs::remove_file(&path);
        assert!(got.len() == n, "C08: after store the file holds exactly the serialized bytes (no stale tail of an older file)");
        assert!(got[..] == s.buf[..n], "C08: store writes exactly the serialized bytes");
    }
}

/// Types whose native alignment exceeds the backing alignment are refused up front.
#[derive(epserde::Epserde, Debug, PartialEq, Eq, Clone, Copy)]
#[repr(C)]
#[repr(align(128))]
#[zero_copy]
pub struct ZAl128 { pub x: u8 }

crate::fs_harness!(c08_load_mem_u32 @ 13 => { load_mem_ok::<U32, 0>() });
crate::fs_harness!(c08_load_mem_u32_trail5 @ 13 => { load_mem_ok::<U32, 5>() });
crate::fs_harness!(c08_load_mem_tup2 @ 13 => { load_mem_ok::<Tup2, 0>() });
crate::fs_harness!(c08_load_mem_arru32x1 @ 13 => { load_mem_ok::<ArrU32x1, 0>() });
crate::fs_harness!(c08_load_mem_zeros @ 22 => { load_mem_ok::<ZeroSC, 0>() });
crate::fs_harness!(c08_load_mem_optu8 @ 28 => { load_mem_ok::<OptU8, 0>() });
crate::fs_harness!(c08_load_mem_u64_trail8 @ 13 => { load_mem_ok::<U64, 8>() });
crate::fs_harness!(c08_load_full_u32 @ 13 => { load_full_ok::<U32>() });
crate::fs_harness!(c08_load_full_tup2 @ 13 => { load_full_ok::<Tup2>() });
crate::fs_harness!(c08_store_u32 @ 13 => { store_ok::<U32>() });
crate::fs_harness!(c08_store_tup2 @ 13 => { store_ok::<Tup2>() });
crate::fs_harness!(c08_overaligned_refused @ 13 => {
    let path = put_file(&[0u8; 8], 8);
    let r = <ZAl128>::load_mem(&path);
    let refused = r.is_err();
    core::mem::forget(r);
    assert!(refused, "C08: a type needing more than the backing alignment is refused");
    #[cfg(kani)]
    assert!(unsafe { N_ALLOC } == 0, "C08: ... before any backing memory is obtained");
});

/// Reachability twin.
crate::fs_harness!(c08_twin_reach @ 13 => {
    let x: u32 = any();
    let mut s = Sink::<64>::new();
    let n = x.serialize(&mut s).unwrap();
    let path = put_file(&s.buf, n);
    let r = <u32>::load_mem(&path);
    let ok = r.is_ok();
    core::mem::forget(r);
    assert!(!ok, "TWIN: must be violated (a valid file loads)");
});
