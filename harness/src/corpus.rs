//! Golden corpus: concrete values whose serializations were written once by
//! the pinned build (bin `golden`, files in harness/golden/corpus) and are
//! decoded by the current tree in C06.
use crate::cases::*;
use crate::rt::Case;
use crate::universe::*;
use core::ops::{Bound, ControlFlow};

macro_rules! corpus {
    ($($name:ident : $case:ident = $val:expr;)*) => {
        $( pub fn $name() -> <$case as Case>::T { $val } )*
        /// (file stem, serializer) for the generator
        #[cfg(not(kani))]
        pub fn write_all(dir: &std::path::Path) {
            use epserde::ser::Serialize;
            $( {
                let v = $name();
                let mut buf: Vec<u8> = Vec::new();
                v.serialize(&mut buf).unwrap();
                std::fs::write(dir.join(concat!(stringify!($name), ".bin")), &buf).unwrap();
            } )*
        }
    };
}
corpus!(
    g_u8: U8 = 0xA5;
    g_u32: U32 = 0xdeadbeef;
    g_u128: U128 = 0x0102030405060708090a0b0c0d0e0f10;
    g_i64: I64 = -2;
    g_f64: F64 = f64::from_bits(0x7ff8_0000_dead_beef);
    g_bool: Bool = true;
    g_char: Char = '\u{1F600}';
    g_unit: Unit = ();
    g_optu32_some: OptU32 = Some(7);
    g_optu32_none: OptU32 = None;
    g_vecu8: VecU8 = vec![1, 2, 3];
    g_vecu32: VecU32 = vec![0x11223344, 5];
    g_vecu128: VecU128 = vec![1];
    g_vecu64_empty: VecU64 = vec![];
    g_boxu32: BoxU32 = vec![9u32, 8, 7].into_boxed_slice();
    g_str: Str = "aé€😀".to_string();
    g_str_empty: Str = String::new();
    g_vecvec: VecVecU16 = vec![vec![1, 2], vec![], vec![3]];
    g_vecstring: VecString = vec!["x".to_string(), String::new(), "yz".to_string()];
    g_arru32x3: ArrU32x3 = [1, 2, 3];
    g_arrstring: ArrStringx2 = ["a".to_string(), "bc".to_string()];
    g_tup2: Tup2 = (0x1234, 0x5678);
    g_tup3: Tup3 = (1, 2, 3);
    g_range: RangeU32 = 3..9;
    g_rangeincl: RangeInclU32 = 3..=9;
    g_bound_incl: BoundU32 = Bound::Included(5);
    g_bound_excl: BoundU32 = Bound::Excluded(6);
    g_cf_break: CfU8U16 = ControlFlow::Break(7);
    g_cf_continue: CfU8U16 = ControlFlow::Continue(0x0809);
    g_deeps: DeepSVec = DeepS { id: 7, data: vec![1, 2, 3], tail: Some(9) };
    g_gen: GenC = Gen { a: vec![4, 5], b: [-1, 2] };
    g_tups: TupSC = TupS(1, vec![2, 3], 4);
    g_zeros: ZeroSC = ZeroS { a: 1, b: 0x02030405 };
    g_veczeros: VecZeroS = vec![ZeroS { a: 1, b: 2 }, ZeroS { a: 3, b: 4 }];
    g_zal32: ZAl32C = ZAl32 { x: 0x0a0b };
    g_znest: ZNestC = ZNest { z: ZeroS { a: 9, b: 8 }, w: [1, 2, 3] };
    g_ze_c: ZEC = ZE::C { a: -1, b: 2 };
    g_en_c: EnU8 = En::C { x: 1, y: 2 };
    g_envec_b: EnVec = En::B(vec![1, 2]);
    g_e5_d: E5C = E5::D { a: -5, b: vec![1, 2, 3] };
    g_e5_e: E5C = E5::E;
    g_optvec: OptVecU16 = Some(vec![1, 2]);
    g_hold_zeros: HoldZeroS = Hold { a: 1, z: ZeroS { a: 2, b: 3 }, b: 4 };
);
