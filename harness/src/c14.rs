//! C14 — reader fragmentation and reader failure.
//! (A) epserde side: the deserializers touch the reader only through
//!     `ReadNoStd::read_exact`; over a reader that delivers exactly the next
//!     bytes or fails at symbolic position k: value == original when no failure,
//!     `Err(ReadError)` for every k < n, no panic, and partially built values are
//!     dropped soundly (CBMC's free/pointer checks on the real drop glue).
//! (B) std side: the blanket `impl<R: io::Read> ReadNoStd for R` over a reader
//!     with symbolic chunk sizes, Interrupted and early EOF fills exactly the
//!     requested bytes in order or returns ReadError.
//! (C) both layers in one query for small types.
use crate::cases::*;
use crate::env::*;
use crate::rt::Case;
use crate::sym::{self, any, assume};
use epserde::deser::{DeserializeInner, Error as DE, ReadNoStd, ReadWithPos, ReaderWithPos};
use epserde::ser::{SerializeInner, WriteWithPos, WriterWithPos};

pub fn fail_full<C: Case, const N: usize, const S: usize>() {
    let x = C::make(S);
    let mut s = Sink::<N>::new();
    let n;
    {
        let mut w = WriterWithPos::new(&mut s);
        let r = SerializeInner::_serialize_inner(&x, &mut w);
        assert!(r.is_ok(), "HARNESS: serialization succeeds");
        n = w.pos();
    }
    let k: usize = any();
    assume(k <= n);
    // the reader holds the COMPLETE data and fails when a request crosses k
    let mut rd = Exact::failing(&s.buf[..n], k);
    let mut rp = ReaderWithPos::new(&mut rd);
    let r = <C::T>::_deserialize_full_inner(&mut rp);
    match r {
        Ok(y) => {
            crate::cover!(true, "no failure: value returned");
            assert!(k == n, "C14: a value was returned although the reader failed");
            assert!(C::same(&x, &y), "C14: value differs from the original");
            drop(y);
        }
        Err(DE::ReadError) => { crate::cover!(true, "reader failure surfaces as ReadError"); assert!(k < n, "C14: read error without a reader failure"); }
        Err(e) => { core::mem::forget(e); assert!(false, "C14: a failing reader yields ReadError"); }
    }
    drop(x);
}

/// (A') the same for deep, heap-building types: the reader fails at its J-th
/// `read_exact` call (J a harness-instance constant, every J up to the number of
/// calls the type needs is an instance).
pub fn fail_at_call<C: Case, const N: usize, const S: usize, const J: usize>() {
    let x = C::make(S);
    let mut s = Sink::<N>::new();
    let n;
    {
        let mut w = WriterWithPos::new(&mut s);
        let r = SerializeInner::_serialize_inner(&x, &mut w);
        assert!(r.is_ok(), "HARNESS: serialization succeeds");
        n = w.pos();
    }
    let mut rd = FailAtCall::new(&s.buf[..n], J);
    let r;
    {
        let mut rp = ReaderWithPos::new(&mut rd);
        r = <C::T>::_deserialize_full_inner(&mut rp);
    }
    match r {
        Ok(y) => {
            assert!(!rd.failed, "C14: a value was returned although the reader failed");
            assert!(C::same(&x, &y), "C14: value differs from the original");
            drop(y);
        }
        Err(DE::ReadError) => { assert!(rd.failed, "C14: read error without a reader failure"); }
        Err(e) => { core::mem::forget(e); assert!(false, "C14: a failing reader yields ReadError"); }
    }
    drop(x);
}

/// io::Read with symbolic behaviour per call: a chunk of 1..=max bytes,
/// Interrupted (retried by read_exact), or end of file.
pub struct Chunky<'a> {
    pub data: &'a [u8],
    pub pos: usize,
    pub calls: usize,
    pub eof_seen: bool,
}
impl<'a> std::io::Read for Chunky<'a> {
    fn read(&mut self, buf: &mut [u8]) -> std::io::Result<usize> {
        self.calls += 1;
        // bound of the claim: at most 6 read calls (assumed here, before the retry loop continues)
        assume(self.calls <= 6);
        let mode: u8 = any();
        assume(mode < 3);
        if mode == 1 {
            return Err(std::io::Error::from(std::io::ErrorKind::Interrupted));
        }
        let rem = self.data.len() - self.pos;
        if mode == 2 || rem == 0 || buf.is_empty() {
            if !buf.is_empty() { self.eof_seen = true; }
            return Ok(0);
        }
        let n: usize = any();
        assume(n >= 1 && n <= buf.len() && n <= rem);
        buf[..n].copy_from_slice(&self.data[self.pos..self.pos + n]);
        self.pos += n;
        Ok(n)
    }
}

/// (B) the std layer alone: a request of L bytes.
fn std_read_exact<const L: usize>() where [u8; L]: crate::sym::Sym {
    let data: [u8; L] = any();
    let mut rd = Chunky { data: &data[..], pos: 0, calls: 0, eof_seen: false };
    let mut out = [0u8; L];
    let r = ReadNoStd::read_exact(&mut rd, &mut out[..]);
    match r {
        Ok(()) => {
            crate::cover!(rd.calls > 1, "fragmented or retried");
            assert!(!rd.eof_seen && rd.pos == L, "C14: success although the reader ended early");
            let k: usize = any();
            assume(k < L);
            assert!(out[k] == data[k], "C14: fragmentation changes the bytes delivered");
        }
        Err(DE::ReadError) => { crate::cover!(true, "early EOF surfaces as ReadError"); assert!(rd.eof_seen, "C14: read error without a reader failure"); }
        Err(e) => { core::mem::forget(e); assert!(false, "C14: a failing reader yields ReadError"); }
    }
}
#[cfg_attr(kani, kani::proof)] #[cfg_attr(kani, kani::unwind(8))]
pub fn c14_std_read_exact_4() { std_read_exact::<4>() }
#[cfg_attr(kani, kani::proof)] #[cfg_attr(kani, kani::unwind(10))]
pub fn c14_std_read_exact_8() { std_read_exact::<8>() }

/// (C) one piece: u32 / Option<u8> through ReaderWithPos over the chunky reader.
#[cfg_attr(kani, kani::proof)] #[cfg_attr(kani, kani::unwind(8))]
pub fn c14_chunky_u32() {
    let x: u32 = any();
    let data = x.to_ne_bytes();
    let mut rd = Chunky { data: &data[..], pos: 0, calls: 0, eof_seen: false };
    let r;
    {
        let mut rp = ReaderWithPos::new(&mut rd);
        r = u32::_deserialize_full_inner(&mut rp);
    }
    match r {
        Ok(y) => { crate::cover!(rd.calls > 1, "fragmented"); assert!(y == x && !rd.eof_seen, "C14: fragmentation changes the value"); }
        Err(DE::ReadError) => { crate::cover!(true, "ReadError"); assert!(rd.eof_seen, "C14: read error without a reader failure"); }
        Err(e) => { core::mem::forget(e); assert!(false, "C14: a failing reader yields ReadError"); }
    }
}
#[cfg_attr(kani, kani::proof)] #[cfg_attr(kani, kani::unwind(8))]
pub fn c14_chunky_optu8() {
    let x: Option<u8> = any();
    let mut s = Sink::<4>::new();
    let n;
    { let mut w = WriterWithPos::new(&mut s); SerializeInner::_serialize_inner(&x, &mut w).unwrap(); n = w.pos(); }
    let mut rd = Chunky { data: &s.buf[..n], pos: 0, calls: 0, eof_seen: false };
    let r;
    {
        let mut rp = ReaderWithPos::new(&mut rd);
        r = <Option<u8>>::_deserialize_full_inner(&mut rp);
    }
    match r {
        Ok(y) => { crate::cover!(rd.calls > 2, "fragmented"); assert!(y == x && !rd.eof_seen, "C14: fragmentation changes the value"); }
        Err(DE::ReadError) => { crate::cover!(true, "ReadError"); assert!(rd.eof_seen, "C14: read error without a reader failure"); }
        Err(e) => { core::mem::forget(e); assert!(false, "C14: a failing reader yields ReadError"); }
    }
}

macro_rules! ff {
    ($($name:ident : $case:ty, $n:literal, $s:literal @ $unw:literal);* $(;)?) => {$(
        #[cfg_attr(kani, kani::proof)] #[cfg_attr(kani, kani::unwind($unw))]
        #[cfg_attr(kani, kani::stub(core::str::from_utf8, crate::env::from_utf8_stub))]
        pub fn $name() { fail_full::<$case, $n, $s>() }
    )*};
}
ff!(
    c14_fail_u64: U64, 16, 0 @ 4; c14_fail_optu32: OptU32, 16, 0 @ 4; c14_fail_vecu32: VecU32, 32, 0 @ 6;
    c14_fail_vecu128: VecU128, 64, 0 @ 18; c14_fail_str: Str, 32, 6 @ 10; 
    c14_fail_arru32x3: ArrU32x3, 16, 0 @ 14;
    c14_fail_arrstring: ArrStringx2, 48, 2 @ 8; c14_fail_tup3: Tup3, 32, 0 @ 10; c14_fail_deeps: DeepSVec, 32, 0 @ 6;
    c14_fail_zeros: ZeroSC, 16, 0 @ 6; c14_fail_e5: E5C, 48, 0 @ 6; c14_fail_optvec: OptVecU16, 32, 0 @ 5;
    c14_fail_cfdeep: CfStringVec, 32, 1 @ 6; c14_fail_boundstr: BoundString, 32, 2 @ 6;
);

macro_rules! fc {
    ($($name:ident : $case:ty, $n:literal, $s:literal, $j:literal @ $unw:literal);* $(;)?) => {$(
        #[cfg_attr(kani, kani::proof)] #[cfg_attr(kani, kani::unwind($unw))]
        #[cfg_attr(kani, kani::stub(core::str::from_utf8, crate::env::from_utf8_stub))]
        pub fn $name() { fail_at_call::<$case, $n, $s, $j>() }
    )*};
}
include!("c14_calls.rs");

/// Reachability twin.
#[cfg_attr(kani, kani::proof)] #[cfg_attr(kani, kani::unwind(8))]
pub fn c14_twin_reach() {
    let data: [u8; 4] = any();
    let mut rd = Chunky { data: &data[..], pos: 0, calls: 0, eof_seen: false };
    let mut out = [0u8; 4];
    let r = ReadNoStd::read_exact(&mut rd, &mut out[..]);
    let ok = r.is_ok();
    core::mem::forget(r);
    assert!(ok, "TWIN: must be violated (early EOF exists)");
}
