//! Shared round-trip machinery: the recording writer `Probe`, the `Case`
//! trait (one listed type instantiation with a symbolic value) and the generic
//! harness bodies of C01/C02/C03/C07/C11/C12/C13/C14.
use crate::env::*;
use crate::sym::{self, any, assume};
use epserde::deser::{DeserType, DeserializeInner, ReadNoStd, ReadWithPos, ReaderWithPos, SliceWithPos};
use epserde::prelude::*;
use epserde::ser::{SerializeInner, WriteNoStd, WriteWithNames, WriteWithPos, WriterWithPos};

#[derive(Clone, Copy)]
pub struct Ev {
    /// 0 = padding written by `align`, 1 = block written by `write_bytes`
    pub kind: u8,
    pub off: usize,
    pub len: usize,
    pub unit: usize,
    pub align: usize,
}
pub const NEV: usize = 12;

/// Recording `WriteWithNames`: every method delegates to the *real*
/// `WriterWithPos` (trait-default `align`, `write_bytes`, position counting of
/// /repo) and logs where padding and zero-copy blocks landed.  Same structure
/// as the repository's own `SchemaWriter`, minus strings.
#[derive(Clone, Copy)]
pub struct Events {
    pub ev: [Ev; NEV],
    pub nev: usize,
}
pub struct Probe<'a, const N: usize> {
    pub inner: WriterWithPos<'a, Sink<N>>,
    pub log: Events,
}
impl<'a, const N: usize> Probe<'a, N> {
    pub fn new(s: &'a mut Sink<N>) -> Self {
        Self { inner: WriterWithPos::new(s), log: Events { ev: [Ev { kind: 0, off: 0, len: 0, unit: 0, align: 0 }; NEV], nev: 0 } }
    }
    fn rec(&mut self, e: Ev) {
        assert!(self.log.nev < NEV, "HARNESS: event log too small");
        self.log.ev[self.log.nev] = e;
        self.log.nev += 1;
    }
}
impl Events {
    /// i-th `write_bytes` block (panics in the harness if there is none).
    pub fn block(&self, i: usize) -> Ev {
        let mut seen = 0;
        let mut j = 0;
        while j < NEV {
            if j < self.nev && self.ev[j].kind == 1 {
                if seen == i {
                    return self.ev[j];
                }
                seen += 1;
            }
            j += 1;
        }
        assert!(false, "HARNESS: block index out of range");
        self.ev[0]
    }
}
impl<'a, const N: usize> WriteNoStd for Probe<'a, N> {
    fn write_all(&mut self, b: &[u8]) -> epserde::ser::Result<()> {
        self.inner.write_all(b)
    }
    fn flush(&mut self) -> epserde::ser::Result<()> {
        self.inner.flush()
    }
}
impl<'a, const N: usize> WriteWithPos for Probe<'a, N> {
    fn pos(&self) -> usize {
        self.inner.pos()
    }
}
impl<'a, const N: usize> WriteWithNames for Probe<'a, N> {
    fn align<V: MaxSizeOf>(&mut self) -> epserde::ser::Result<()> {
        let before = self.inner.pos();
        let r = self.inner.align::<V>();
        let after = self.inner.pos();
        self.rec(Ev { kind: 0, off: before, len: after - before, unit: V::max_size_of(), align: 0 });
        r
    }
    fn write<V: SerializeInner>(&mut self, _field_name: &str, value: &V) -> epserde::ser::Result<()> {
        value._serialize_inner(self)
    }
    fn write_bytes<V: SerializeInner + ZeroCopy>(&mut self, value: &[u8]) -> epserde::ser::Result<()> {
        let off = self.inner.pos();
        self.rec(Ev { kind: 1, off, len: value.len(), unit: V::max_size_of(), align: core::mem::align_of::<V>() });
        self.inner.write_bytes::<V>(value)
    }
}

#[derive(Clone, Copy)]
pub struct Borrow {
    pub ptr: usize,
    pub bytes: usize,
    pub align: usize,
    /// index of the `write_bytes` block this part must coincide with
    pub block: usize,
}
pub struct Borrows {
    pub b: [Borrow; 4],
    pub n: usize,
}
impl Borrows {
    pub fn new() -> Self {
        Self { b: [Borrow { ptr: 0, bytes: 0, align: 1, block: 0 }; 4], n: 0 }
    }
    pub fn slice<T>(&mut self, s: &[T], block: usize) {
        self.b[self.n] = Borrow { ptr: s.as_ptr() as usize, bytes: core::mem::size_of_val(s), align: core::mem::align_of::<T>(), block };
        self.n += 1;
    }
    pub fn str(&mut self, s: &str, block: usize) {
        self.slice(s.as_bytes(), block)
    }
    pub fn re<T>(&mut self, r: &T, block: usize) {
        self.b[self.n] = Borrow { ptr: r as *const T as usize, bytes: core::mem::size_of::<T>(), align: core::mem::align_of::<T>(), block };
        self.n += 1;
    }
}

/// One listed instantiation.
pub trait Case {
    type T: SerializeInner + DeserializeInner + TypeHash + AlignHash;
    /// Number of enumerated shapes (sequence lengths / UTF-8 width classes that
    /// are concrete per harness instance; everything else is symbolic).
    const SHAPES: usize = 1;
    /// Symbolic value of the type for shape `shape` (a harness-instance constant).
    fn make(shape: usize) -> Self::T;
    /// Equality used for full-copy results (bit-for-bit for floats).
    fn same(a: &Self::T, b: &Self::T) -> bool;
    /// Observable equality of an ε-copy result with a value of the original
    /// type under the documented substitution.
    fn same_eps<'a>(x: &Self::T, e: &DeserType<'a, Self::T>) -> bool;
    /// Borrowed parts of an ε-copy result (in serialization order).
    fn borrows<'a>(_e: &DeserType<'a, Self::T>, _out: &mut Borrows) {}
    /// Number of borrowed parts expected for value `x` (vacuity guard for C03).
    fn n_borrows(_x: &Self::T) -> usize {
        0
    }
    /// Digest of what an ε-copy deserialization of `x` legitimately allocates
    /// for: the deep-copy skeleton (lengths of deep sequences) and the fields
    /// that are by design fully copied (their lengths, the variant that holds
    /// them).  Two values with the same digest differ only in the lengths and
    /// contents of the parts that are returned as borrowed slices.
    fn eps_alloc_bytes(_x: &Self::T) -> usize {
        0
    }
}

#[inline(always)]
fn prefix<const PRE: usize>(w: &mut impl WriteNoStd) {
    if PRE > 0 {
        let r = w.write_all(&[0xAAu8; PRE]);
        assert!(r.is_ok(), "HARNESS: prefix fits");
    }
}

/// C01: serialize at stream offset PRE, full-copy deserialize with the real
/// `ReaderWithPos`, compare, and compare the consumed byte count.
pub fn full_rt<C: Case, const PRE: usize, const N: usize, const S: usize>() {
    let x = C::make(S);
    let mut s = Sink::<N>::new();
    let n;
    {
        let mut w = WriterWithPos::new(&mut s);
        prefix::<PRE>(&mut w);
        let r = SerializeInner::_serialize_inner(&x, &mut w);
        assert!(r.is_ok(), "C01: serialization succeeds");
        n = w.pos();
    }
    assert!(n == s.len, "C01: writer position equals bytes handed to the sink");
    let mut rd = Exact::new(&s.buf[..n]);
    let mut rp = ReaderWithPos::new(&mut rd);
    let mut skip = [0u8; PRE];
    assert!(rp.read_exact(&mut skip).is_ok(), "HARNESS: prefix readable");
    let y = <C::T>::_deserialize_full_inner(&mut rp);
    match y {
        Ok(y) => {
            crate::cover!(true, "full-copy Ok reached");
            assert!(C::same(&x, &y), "C01: full-copy result equals the serialized value");
            assert!(rp.pos() == n, "C01: full-copy consumes exactly the bytes written");
        }
        Err(e) => {
            core::mem::forget(e);
            assert!(false, "C01: full-copy deserialization of the produced bytes succeeds");
        }
    }
}

/// C02: ε-copy from a buffer aligned to 128 equals the original and agrees
/// with full-copy of the same bytes.
pub fn eps_rt<C: Case, const PRE: usize, const N: usize, const S: usize>() {
    let x = C::make(S);
    let mut s = Sink::<N>::new();
    let n;
    {
        let mut w = WriterWithPos::new(&mut s);
        prefix::<PRE>(&mut w);
        let r = SerializeInner::_serialize_inner(&x, &mut w);
        assert!(r.is_ok(), "C02: serialization succeeds");
        n = w.pos();
    }
    let mut al = Al::<N>::zero();
    al.0 = s.buf;
    let mut sl = SliceWithPos { data: &al.0[PRE..n], pos: PRE };
    let e = <C::T>::_deserialize_eps_inner(&mut sl);
    let mut sf = SliceWithPos { data: &al.0[PRE..n], pos: PRE };
    let f = <C::T>::_deserialize_full_inner(&mut sf);
    let ef = (e, f);
    match ef {
        (Ok(e), Ok(f)) => {
            crate::cover!(true, "eps Ok reached");
            assert!(C::same_eps(&x, &e), "C02: eps result equals the original under the substitution");
            assert!(C::same_eps(&f, &e), "C02: eps result describes the same value as full-copy of the same bytes");
            assert!(sl.pos == n && sl.data.len() == 0, "C02: eps consumes exactly the bytes written");
            assert!(sf.pos == n, "C02: full-copy consumes exactly the bytes written");
        }
        (e, f) => {
            core::mem::forget(e);
            core::mem::forget(f);
            assert!(false, "C02: both deserializers succeed on an aligned buffer");
        }
    }
}

/// C03: every borrowed part of the ε-copy result is the block the serializer
/// wrote (pointer identity with the recorded offset), in bounds and aligned.
pub fn eps_borrows<C: Case, const PRE: usize, const N: usize, const S: usize>() {
    let x = C::make(S);
    let mut s = Sink::<N>::new();
    let mut p = Probe::new(&mut s);
    prefix::<PRE>(&mut p);
    let r = SerializeInner::_serialize_inner(&x, &mut p);
    assert!(r.is_ok(), "C03: serialization succeeds");
    let n = p.pos();
    let probe = p.log;
    drop(p);
    let mut al = Al::<N>::zero();
    al.0 = s.buf;
    let base = al.0.as_ptr() as usize;
    let mut sl = SliceWithPos { data: &al.0[PRE..n], pos: PRE };
    let e = <C::T>::_deserialize_eps_inner(&mut sl);
    match e {
        Ok(e) => {
            let mut bs = Borrows::new();
            C::borrows(&e, &mut bs);
            assert!(bs.n == C::n_borrows(&x), "C03: the result has the borrowed parts the substitution prescribes");
            crate::cover!(bs.n > 0, "a borrowed part exists");
            let mut i = 0;
            while i < 4 {
                if i < bs.n {
                    let b = bs.b[i];
                    let blk = probe.block(b.block);
                    assert!(b.ptr == base + blk.off, "C03: borrowed part starts exactly where the serializer wrote the block");
                    assert!(b.bytes == blk.len, "C03: borrowed part has the written length");
                    assert!(b.ptr % b.align == 0, "C03: borrowed part is aligned for its element type");
                    assert!(b.ptr >= base + PRE && b.ptr + b.bytes <= base + n, "C03: borrowed part covers only bytes of the buffer");
                }
                i += 1;
            }
        }
        Err(er) => {
            core::mem::forget(er);
            assert!(false, "C03: eps deserialization of an aligned buffer succeeds");
        }
    }
}

/// C03 (allocation sub-claim): two symbolic values of the same type whose
/// deep-copy skeleton and fully copied fields agree (same `eps_alloc_bytes`
/// digest; shapes S1, S2) but whose borrowed sequences differ in length and
/// content cause exactly the same number of allocated bytes and allocator
/// calls during ε-copy deserialization (`std::alloc::alloc` is stubbed by a
/// counter through which every Vec/Box allocation passes).
pub fn eps_alloc<C: Case, const PRE: usize, const N: usize, const S1: usize, const S2: usize>() {
    let x1 = C::make(S1);
    let x2 = C::make(S2);
    assume(C::eps_alloc_bytes(&x1) == C::eps_alloc_bytes(&x2));
    let (b1, c1) = eps_alloc_one::<C, PRE, N>(&x1);
    let (b2, c2) = eps_alloc_one::<C, PRE, N>(&x2);
    crate::cover!(true, "two runs compared");
    assert!(b1 == b2 && c1 == c2, "C03: memory allocated by eps deserialization depends on the lengths of the borrowed sequences");
    // The two inputs are the harness's own values.  Under CBMC they are not
    // dropped: with `alloc` stubbed, the drop of a harness-built `Vec<Vec<_>>`
    // with an empty inner vector fails `__rust_dealloc`'s checks spuriously
    // (DESIGN §7b).  Natively (replay, Miri) they are dropped as usual.
    #[cfg(kani)]
    { core::mem::forget(x1); core::mem::forget(x2); }
}
fn eps_alloc_one<C: Case, const PRE: usize, const N: usize>(x: &C::T) -> (usize, usize) {
    let mut s = Sink::<N>::new();
    let n;
    {
        let mut w = WriterWithPos::new(&mut s);
        prefix::<PRE>(&mut w);
        let r = SerializeInner::_serialize_inner(x, &mut w);
        assert!(r.is_ok(), "C03: serialization succeeds");
        n = w.pos();
    }
    let mut al = Al::<N>::zero();
    al.0 = s.buf;
    let mut sl = SliceWithPos { data: &al.0[PRE..n], pos: PRE };
    alloc_reset();
    let e = <C::T>::_deserialize_eps_inner(&mut sl);
    let got = (alloc_bytes(), unsafe { ALLOC_CALLS });
    match e {
        Ok(e) => {
            // dropped natively (Miri sees a leak otherwise); not dropped under CBMC (see eps_alloc)
            #[cfg(kani)]
            core::mem::forget(e);
            #[cfg(not(kani))]
            drop(e);
        }
        Err(er) => { core::mem::forget(er); assert!(false, "C03: eps deserialization of an aligned buffer succeeds"); }
    }
    got
}

/// C07 (c): units, zero padding, minimal gaps, exact byte counts, for one
/// start residue PRE.
pub fn units_counts<C: Case, const PRE: usize, const N: usize, const S: usize>() {
    let x = C::make(S);
    let mut s = Sink::<N>::new();
    let mut p = Probe::new(&mut s);
    prefix::<PRE>(&mut p);
    let r = SerializeInner::_serialize_inner(&x, &mut p);
    assert!(r.is_ok(), "C07: serialization succeeds");
    let n = p.pos();
    let log = p.log;
    drop(p);
    assert!(n == s.len, "C07: position reported by the writer equals bytes handed to the sink");
    // one symbolic event index instead of a loop over events
    let i: usize = any();
    assume(i < NEV);
    if i < log.nev {
        let e = log.ev[i];
        assert!(e.unit != 0 && e.unit & (e.unit - 1) == 0, "C07: alignment unit is a power of two");
        if e.kind == 1 {
            crate::cover!(true, "a zero-copy block was written");
            assert!(e.off % e.unit == 0, "C07: zero-copy block starts at a multiple of its unit");
            assert!(e.unit >= e.align, "C07: unit is no smaller than the native alignment");
            assert!(e.off + e.len <= n, "C07: block lies inside the stream");
        } else {
            assert!(e.len < e.unit, "C07: gap is smaller than the unit");
            assert!((e.off + e.len) % e.unit == 0, "C07: gap ends at a multiple of the unit");
            let k: usize = any();
            assume(k >= e.off && k < e.off + e.len);
            crate::cover!(true, "a non-empty gap was written");
            assert!(s.buf[k] == 0, "C07: gap consists of zero bytes only");
        }
    }
    // either deserializer consumes exactly n bytes
    let mut al = Al::<N>::zero();
    al.0 = s.buf;
    let mut sl = SliceWithPos { data: &al.0[PRE..n], pos: PRE };
    let e = <C::T>::_deserialize_eps_inner(&mut sl);
    assert!(e.is_ok(), "C07: eps deserialization succeeds");
    assert!(sl.pos == n, "C07: eps consumes exactly the bytes written");
    core::mem::forget(e);
    let mut rd = Exact::new(&s.buf[..n]);
    let mut rp = ReaderWithPos::new(&mut rd);
    let mut skip = [0u8; PRE];
    assert!(rp.read_exact(&mut skip).is_ok(), "HARNESS: prefix readable");
    let y = <C::T>::_deserialize_full_inner(&mut rp);
    assert!(y.is_ok(), "C07: full-copy deserialization succeeds");
    assert!(rp.pos() == n, "C07: full-copy consumes exactly the bytes written");
    core::mem::forget(y);
}

/// C12: the stream is placed at every residue R of a 128-aligned buffer.
/// Oracle from the blocks the Probe recorded: Ok iff every block lands on a
/// multiple of its unit, else AlignmentError; references are aligned on Ok.
pub fn misplaced<C: Case, const N: usize, const RMAX: usize, const S: usize>() {
    let x = C::make(S);
    let mut s = Sink::<N>::new();
    let mut p = Probe::new(&mut s);
    let r = SerializeInner::_serialize_inner(&x, &mut p);
    assert!(r.is_ok(), "C12: serialization succeeds");
    let n = p.pos();
    let log = p.log;
    drop(p);
    let rr: usize = any();
    assume(rr < RMAX);
    let mut big = Al::<256>::zero();
    let mut i = 0;
    while i < N {
        if i < n {
            big.0[rr + i] = s.buf[i];
        }
        i += 1;
    }
    let base = big.0.as_ptr() as usize;
    // expected: all blocks aligned at this placement?
    let mut all_ok = true;
    let mut j = 0;
    while j < NEV {
        if j < log.nev && log.ev[j].kind == 1 && log.ev[j].unit != 0 {
            if (base + rr + log.ev[j].off) % log.ev[j].unit != 0 {
                all_ok = false;
            }
        }
        j += 1;
    }
    let mut sl = SliceWithPos::new(&big.0[rr..rr + n]);
    let e = <C::T>::_deserialize_eps_inner(&mut sl);
    match e {
        Ok(e) => {
            crate::cover!(true, "accepted placement exists");
            assert!(all_ok, "C12: accepted although a zero-copy block is misplaced for its unit");
            assert!(C::same_eps(&x, &e), "C12: value read at an accepted placement equals the original");
            let mut bs = Borrows::new();
            C::borrows(&e, &mut bs);
            let mut i = 0;
            while i < 4 {
                if i < bs.n {
                    assert!(bs.b[i].ptr % bs.b[i].align == 0, "C12: reference misaligned for its type");
                }
                i += 1;
            }
        }
        Err(epserde::deser::Error::AlignmentError) => {
            crate::cover!(true, "refused placement exists");
            assert!(!all_ok, "C12: refused although every block is aligned for its unit");
        }
        Err(er) => {
            core::mem::forget(er);
            assert!(false, "C12: only an alignment error may be returned");
        }
    }
}
