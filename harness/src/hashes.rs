//! Digest helpers: the recipe of the published format (xxh3 of the structure
//! walk), written here independently of /repo's `write_header`.
use core::hash::Hasher;
use epserde::prelude::*;

pub fn type_digest<T: TypeHash + ?Sized>() -> u64 {
    let mut h = xxhash_rust::xxh3::Xxh3::new();
    T::type_hash(&mut h);
    h.finish()
}
pub fn align_digest<T: AlignHash + ?Sized>() -> u64 {
    let mut h = xxhash_rust::xxh3::Xxh3::new();
    let mut off = 0usize;
    T::align_hash(&mut h, &mut off);
    h.finish()
}
pub fn digests<T: TypeHash + AlignHash + ?Sized>() -> (u64, u64) {
    (type_digest::<T>(), align_digest::<T>())
}
