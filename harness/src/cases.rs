//! The listed instantiations (DESIGN.md §4) as `Case` impls.
use crate::rt::{Borrows, Case};
use crate::sym::{self, any, assume, len_upto, string_upto, string_w, vec_n, vec_upto, Sym};
use crate::universe::*;
use core::marker::PhantomData;
use core::num::*;
use core::ops::{Bound, ControlFlow, Range, RangeFrom, RangeFull, RangeInclusive, RangeTo, RangeToInclusive};
use epserde::deser::DeserType;

/// Element-wise slice equality (avoids the memcmp fast path, whose trip count
/// is the byte length and would force a large unwinding bound).
pub fn eqs<T: PartialEq>(a: &[T], b: &[T]) -> bool {
    if a.len() != b.len() {
        return false;
    }
    let mut i = 0;
    while i < a.len() {
        if a[i] != b[i] {
            return false;
        }
        i += 1;
    }
    true
}
pub fn eqstr(a: &str, b: &str) -> bool {
    eqs(a.as_bytes(), b.as_bytes())
}

macro_rules! case {
    ($name:ident : $t:ty, $(shapes = $ns:literal,)? make = |$sh:ident| $make:expr, same = |$a:ident, $b:ident| $same:expr,
     eps = |$x:ident, $e:ident| $eps:expr
     $(, borrows = |$be:ident, $bo:ident| $bor:block, n = |$nx:ident| $nb:expr)?
     $(, alloc = |$ax:ident| $ab:expr)?) => {
        pub struct $name;
        impl Case for $name {
            type T = $t;
            $(const SHAPES: usize = $ns;)?
            fn make($sh: usize) -> $t { $make }
            fn same($a: &$t, $b: &$t) -> bool { $same }
            fn same_eps<'a>($x: &$t, $e: &DeserType<'a, $t>) -> bool { $eps }
            $(fn borrows<'a>($be: &DeserType<'a, $t>, $bo: &mut Borrows) $bor
              fn n_borrows($nx: &$t) -> usize { $nb })?
            $(fn eps_alloc_bytes($ax: &$t) -> usize { $ab })?
        }
    };
}

/// Types whose ε-copy type is themselves and that are `PartialEq`.
macro_rules! plain {
    ($($name:ident : $t:ty),* $(,)?) => {$(
        case!($name: $t, make = |_s| any(), same = |a, b| a == b, eps = |x, e| x == e);
    )*};
}

plain!(U8: u8, U16: u16, U32: u32, U64: u64, U128: u128, Usize: usize,
       I8: i8, I16: i16, I32: i32, I64: i64, I128: i128, Isize: isize,
       Bool: bool, Char: char, Unit: (),
       NzU8: NonZeroU8, NzU16: NonZeroU16, NzU32: NonZeroU32, NzU64: NonZeroU64, NzU128: NonZeroU128, NzUsize: NonZeroUsize,
       NzI8: NonZeroI8, NzI16: NonZeroI16, NzI32: NonZeroI32, NzI64: NonZeroI64, NzI128: NonZeroI128, NzIsize: NonZeroIsize,
       OptU8: Option<u8>, OptU32: Option<u32>, OptUnit: Option<()>, OptOptU8: Option<Option<u8>>);

case!(F32: f32, make = |_s| any(), same = |a, b| a.to_bits() == b.to_bits(), eps = |x, e| x.to_bits() == e.to_bits());
case!(F64: f64, make = |_s| any(), same = |a, b| a.to_bits() == b.to_bits(), eps = |x, e| x.to_bits() == e.to_bits());
case!(Phantom: PhantomData<u32>, make = |_s| PhantomData, same = |a, b| a == b, eps = |x, e| x == e);

// ---- sequences of zero-copy elements: borrowed slices ------------------------

macro_rules! zvec {
    ($($name:ident : $el:ty, $max:literal),* $(,)?) => {$(
        case!($name: Vec<$el>, make = |_s| vec_upto::<$el, $max>(), same = |a, b| eqs(a, b),
              eps = |x, e| eqs(x, e),
              borrows = |e, out| { out.slice(*e, 0); }, n = |_x| 1);
    )*};
}
zvec!(VecU8: u8, 3, VecU16: u16, 3, VecU32: u32, 3, VecU64: u64, 2, VecU128: u128, 2, VecUnit: (), 2,
      VecArrU16x2: [u16; 2], 2, VecTupU16: (u16, u16), 2, VecZeroS: ZeroS, 2, VecZTail: ZTail, 2,
      VecZAl32: ZAl32, 1, VecZUnit: ZUnit, 2, VecZE: ZE, 1, VecRangeTo: RangeTo<u32>, 2,
      VecRangeToArr3: RangeTo<[u8; 3]>, 2, VecRangeToUnit: RangeTo<()>, 2);

impl Sym for ZeroS { fn sym() -> Self { ZeroS { a: any(), b: any() } } }
impl Sym for ZTail { fn sym() -> Self { ZTail { a: any(), b: any() } } }
impl Sym for ZAl32 { fn sym() -> Self { ZAl32 { x: any() } } }
impl Sym for ZUnit { fn sym() -> Self { ZUnit } }
impl Sym for ZAl4 { fn sym() -> Self { ZAl4 } }
impl<A: Sym + epserde::traits::ZeroCopy> Sym for ZGen<A> { fn sym() -> Self { ZGen { a: any(), b: any() } } }
impl Sym for ZNest { fn sym() -> Self { ZNest { z: any(), w: any() } } }
impl<const N: usize> Sym for ZConst<N> where [u8; N]: Sym { fn sym() -> Self { ZConst(any(), any()) } }
impl Sym for ZE {
    fn sym() -> Self {
        let t: u8 = any();
        assume(t < 3);
        match t { 0 => ZE::A, 1 => ZE::B(any()), _ => ZE::C { a: any(), b: any() } }
    }
}
impl<A: Sym, B: Sym> Sym for (A, B) { fn sym() -> Self { (any(), any()) } }
impl<A: Sym> Sym for (A,) { fn sym() -> Self { (any(),) } }
impl<A: Sym, B: Sym, C: Sym> Sym for (A, B, C) { fn sym() -> Self { (any(), any(), any()) } }
impl Sym for RangeFull { fn sym() -> Self { .. } }
impl<T: Sym> Sym for RangeTo<T> { fn sym() -> Self { ..any::<T>() } }
impl<T: Sym> Sym for RangeToInclusive<T> { fn sym() -> Self { ..=any::<T>() } }
impl<T: Sym> Sym for Range<T> { fn sym() -> Self { any::<T>()..any::<T>() } }
impl<T: Sym> Sym for RangeFrom<T> { fn sym() -> Self { any::<T>().. } }
impl<T: Sym> Sym for Bound<T> {
    fn sym() -> Self {
        let t: u8 = any();
        assume(t < 3);
        match t { 0 => Bound::Unbounded, 1 => Bound::Included(any()), _ => Bound::Excluded(any()) }
    }
}
impl<B: Sym, C: Sym> Sym for ControlFlow<B, C> {
    fn sym() -> Self { if any::<bool>() { ControlFlow::Break(any()) } else { ControlFlow::Continue(any()) } }
}

case!(BoxU32: Box<[u32]>, make = |_s| vec_upto::<u32, 3>().into_boxed_slice(), same = |a, b| eqs(a, b),
      eps = |x, e| eqs(x, e), borrows = |e, out| { out.slice(*e, 0); }, n = |_x| 1);
/// UTF-8 width classes of the (<= 2) chars of a string, per shape.
pub const STR_SHAPES: [(usize, usize); 8] = [(0, 0), (1, 0), (2, 0), (3, 0), (4, 0), (1, 4), (3, 2), (4, 1)];
fn str_shape(s: usize) -> String { string_w(STR_SHAPES[s].0, STR_SHAPES[s].1) }
/// Shorter list for strings nested in other types.
pub const STR3: [(usize, usize); 3] = [(0, 0), (1, 0), (3, 0)];
fn str3(s: usize) -> String { string_w(STR3[s].0, STR3[s].1) }
case!(Str: String, shapes = 8, make = |s| str_shape(s), same = |a, b| eqstr(a, b),
      eps = |x, e| eqstr(x, e), borrows = |e, out| { out.str(*e, 0); }, n = |_x| 1);
case!(BoxStr: Box<str>, shapes = 8, make = |s| str_shape(s).into_boxed_str(), same = |a, b| eqstr(a, b),
      eps = |x, e| eqstr(x, e), borrows = |e, out| { out.str(*e, 0); }, n = |_x| 1);

// ---- deep sequences -----------------------------------------------------------

/// (outer length, inner lengths) per shape; element values symbolic.
pub const VV_SHAPES: [(usize, usize, usize); 6] = [(0, 0, 0), (1, 0, 0), (1, 1, 0), (1, 2, 0), (2, 0, 1), (2, 1, 2)];
fn vec_vec_u16(s: usize) -> Vec<Vec<u16>> {
    let (o, a, b) = VV_SHAPES[s];
    let mut v = Vec::with_capacity(2);
    if o >= 1 { v.push(vec_n::<u16>(a)); }
    if o >= 2 { v.push(vec_n::<u16>(b)); }
    v
}
fn eq_vv(x: &Vec<Vec<u16>>, e: &Vec<&[u16]>) -> bool {
    if x.len() != e.len() { return false; }
    let mut i = 0;
    while i < x.len() { if !eqs(&x[i], e[i]) { return false; } i += 1; }
    true
}
fn eq_vv_full(a: &[Vec<u16>], b: &[Vec<u16>]) -> bool {
    if a.len() != b.len() { return false; }
    let mut i = 0;
    while i < a.len() { if !eqs(&a[i], &b[i]) { return false; } i += 1; }
    true
}
fn eq_vs_full(a: &[String], b: &[String]) -> bool {
    if a.len() != b.len() { return false; }
    let mut i = 0;
    while i < a.len() { if !eqstr(&a[i], &b[i]) { return false; } i += 1; }
    true
}
case!(VecVecU16: Vec<Vec<u16>>, shapes = 6, make = |s| vec_vec_u16(s), same = |a, b| eq_vv_full(a, b), eps = |x, e| eq_vv(x, e),
      borrows = |e, out| { let mut i = 0; while i < e.len() { out.slice(e[i], i); i += 1; } }, n = |x| x.len(),
      alloc = |x| x.len() * core::mem::size_of::<&[u16]>());

/// (length, width of the char of string 0, of string 1; 0 = empty string) per shape.
pub const VS_SHAPES: [(usize, usize, usize); 6] = [(0, 0, 0), (1, 0, 0), (1, 1, 0), (1, 3, 0), (2, 0, 2), (2, 4, 1)];
fn vec_string(s: usize) -> Vec<String> {
    let (o, a, b) = VS_SHAPES[s];
    let mut v = Vec::with_capacity(2);
    if o >= 1 { v.push(string_w(a, 0)); }
    if o >= 2 { v.push(string_w(b, 0)); }
    v
}
fn eq_vs(x: &[String], e: &[&str]) -> bool {
    if x.len() != e.len() { return false; }
    let mut i = 0;
    while i < x.len() { if !eqstr(&x[i], e[i]) { return false; } i += 1; }
    true
}
case!(VecString: Vec<String>, shapes = 6, make = |s| vec_string(s), same = |a, b| eq_vs_full(a, b), eps = |x, e| eq_vs(x, e),
      borrows = |e, out| { let mut i = 0; while i < e.len() { out.str(e[i], i); i += 1; } }, n = |x| x.len(),
      alloc = |x| x.len() * core::mem::size_of::<&str>());
case!(BoxString: Box<[String]>, shapes = 6, make = |s| vec_string(s).into_boxed_slice(), same = |a, b| eq_vs_full(a, b), eps = |x, e| eq_vs(x, e),
      borrows = |e, out| { let mut i = 0; while i < e.len() { out.str(e[i], i); i += 1; } }, n = |x| x.len(),
      alloc = |x| x.len() * core::mem::size_of::<&str>());
case!(VecOptU8: Vec<Option<u8>>, make = |_s| vec_upto::<Option<u8>, 2>(), same = |a, b| eqs(a, b), eps = |x, e| eqs(x, e),
      alloc = |x| x.len() * core::mem::size_of::<Option<u8>>());

fn opt_vec_u16() -> Option<Vec<u16>> { if any::<bool>() { Some(vec_upto::<u16, 2>()) } else { None } }
case!(OptVecU16: Option<Vec<u16>>, make = |_s| opt_vec_u16(), same = |a, b| match (a, b) { (None, None) => true, (Some(a), Some(b)) => eqs(a, b), _ => false },
      eps = |x, e| match (x, e) { (None, None) => true, (Some(a), Some(b)) => eqs(a, b), _ => false },
      borrows = |e, out| { if let Some(s) = e { out.slice(*s, 0); } }, n = |x| if x.is_some() { 1 } else { 0 });
fn opt_vec_u64() -> Option<Vec<u64>> { if any::<bool>() { Some(vec_upto::<u64, 1>()) } else { None } }
case!(OptVecU64: Option<Vec<u64>>, make = |_s| opt_vec_u64(), same = |a, b| match (a, b) { (None, None) => true, (Some(a), Some(b)) => eqs(a, b), _ => false },
      eps = |x, e| match (x, e) { (None, None) => true, (Some(a), Some(b)) => eqs(a, b), _ => false },
      borrows = |e, out| { if let Some(s) = e { out.slice(*s, 0); } }, n = |x| if x.is_some() { 1 } else { 0 });

// ---- arrays ---------------------------------------------------------------------

macro_rules! zarr {
    ($($name:ident : $el:ty, $n:literal),* $(,)?) => {$(
        case!($name: [$el; $n], make = |_s| any(), same = |a, b| a == b, eps = |x, e| x == *e,
              borrows = |e, out| { out.re(*e, 0); }, n = |_x| 1);
    )*};
}
zarr!(ArrU32x0: u32, 0, ArrU32x1: u32, 1, ArrU32x3: u32, 3, ArrUnitx2: (), 2, ArrZeroSx2: ZeroS, 2);
case!(ArrArrU8: [[u8; 2]; 2], make = |_s| any(), same = |a, b| a == b, eps = |x, e| x == *e,
      borrows = |e, out| { out.re(*e, 0); }, n = |_x| 1);
case!(ArrStringx0: [String; 0], make = |_s| [], same = |a, b| a == b, eps = |x, e| e.len() == 0);
pub const AS_SHAPES: [(usize, usize); 4] = [(0, 0), (1, 0), (2, 3), (4, 1)];
fn arr_string2(s: usize) -> [String; 2] { [string_w(AS_SHAPES[s].0, 0), string_w(AS_SHAPES[s].1, 0)] }
case!(ArrStringx2: [String; 2], shapes = 4, make = |s| arr_string2(s), same = |a, b| eqstr(&a[0], &b[0]) && eqstr(&a[1], &b[1]),
      eps = |x, e| eqstr(&x[0], e[0]) && eqstr(&x[1], e[1]),
      borrows = |e, out| { out.str(e[0], 0); out.str(e[1], 1); }, n = |_x| 2);

/// deep array whose items own heap memory but are not strings
pub const AV_SHAPES: [(usize, usize); 3] = [(0, 0), (1, 2), (2, 0)];
fn arr_vec2(s: usize) -> [Vec<u16>; 2] { [vec_n::<u16>(AV_SHAPES[s].0), vec_n::<u16>(AV_SHAPES[s].1)] }
case!(ArrVecx2: [Vec<u16>; 2], shapes = 3, make = |s| arr_vec2(s), same = |a, b| eqs(&a[0], &b[0]) && eqs(&a[1], &b[1]),
      eps = |x, e| eqs(&x[0], e[0]) && eqs(&x[1], e[1]),
      borrows = |e, out| { out.slice(e[0], 0); out.slice(e[1], 1); }, n = |_x| 2);

// ---- tuples (zero-copy, homogeneous) -----------------------------------------------

case!(Tup1: (u32,), make = |_s| any(), same = |a, b| a == b, eps = |x, e| x == *e, borrows = |e, out| { out.re(*e, 0); }, n = |_x| 1);
case!(Tup2: (u16, u16), make = |_s| any(), same = |a, b| a == b, eps = |x, e| x == *e, borrows = |e, out| { out.re(*e, 0); }, n = |_x| 1);
case!(Tup3: (u64, u64, u64), make = |_s| any(), same = |a, b| a == b, eps = |x, e| x == *e, borrows = |e, out| { out.re(*e, 0); }, n = |_x| 1);
type T12 = (u8, u8, u8, u8, u8, u8, u8, u8, u8, u8, u8, u8);
fn t12() -> T12 { (any(), any(), any(), any(), any(), any(), any(), any(), any(), any(), any(), any()) }
case!(Tup12: T12, make = |_s| t12(), same = |a, b| a == b, eps = |x, e| x == *e, borrows = |e, out| { out.re(*e, 0); }, n = |_x| 1);

// ---- ranges, bounds, control flow ---------------------------------------------------

plain!(RangeU32: Range<u32>, RangeFromU8: RangeFrom<u8>, RangeToU32: RangeTo<u32>, RangeToInclU8: RangeToInclusive<u8>,
       RangeFullC: RangeFull, BoundU32: Bound<u32>, CfU8U16: ControlFlow<u8, u16>);
fn range_incl() -> RangeInclusive<u32> { any::<u32>()..=any::<u32>() }
case!(RangeInclU32: RangeInclusive<u32>, make = |_s| range_incl(), same = |a, b| a == b, eps = |x, e| x == e);
fn bound_string(s: usize) -> Bound<String> {
    let t: u8 = any();
    assume(t < 3);
    match t { 0 => Bound::Unbounded, 1 => Bound::Included(str3(s)), _ => Bound::Excluded(str3(s)) }
}
fn eq_bound_string(a: &Bound<String>, b: &Bound<String>) -> bool {
    match (a, b) { (Bound::Unbounded, Bound::Unbounded) => true, (Bound::Included(a), Bound::Included(b)) => eqstr(a, b),
                   (Bound::Excluded(a), Bound::Excluded(b)) => eqstr(a, b), _ => false }
}
case!(BoundString: Bound<String>, shapes = 3, make = |s| bound_string(s), same = |a, b| eq_bound_string(a, b),
      eps = |x, e| match (x, e) { (Bound::Unbounded, Bound::Unbounded) => true,
                                   (Bound::Included(a), Bound::Included(b)) => eqstr(a, b),
                                   (Bound::Excluded(a), Bound::Excluded(b)) => eqstr(a, b), _ => false },
      borrows = |e, out| { match e { Bound::Included(s) | Bound::Excluded(s) => out.str(*s, 0), _ => {} } },
      n = |x| if matches!(x, Bound::Unbounded) { 0 } else { 1 });
fn cf_deep(s: usize) -> ControlFlow<String, Vec<u8>> {
    if any::<bool>() { ControlFlow::Break(str3(s)) } else { ControlFlow::Continue(vec_upto::<u8, 2>()) }
}
fn eq_cf_deep(a: &ControlFlow<String, Vec<u8>>, b: &ControlFlow<String, Vec<u8>>) -> bool {
    match (a, b) { (ControlFlow::Break(a), ControlFlow::Break(b)) => eqstr(a, b),
                   (ControlFlow::Continue(a), ControlFlow::Continue(b)) => eqs(a, b), _ => false }
}
case!(CfStringVec: ControlFlow<String, Vec<u8>>, shapes = 3, make = |s| cf_deep(s), same = |a, b| eq_cf_deep(a, b),
      eps = |x, e| match (x, e) { (ControlFlow::Break(a), ControlFlow::Break(b)) => eqstr(a, b),
                                   (ControlFlow::Continue(a), ControlFlow::Continue(b)) => eqs(a, b), _ => false },
      borrows = |e, out| { match e { ControlFlow::Break(s) => out.str(*s, 0), ControlFlow::Continue(v) => out.slice(*v, 0) } },
      n = |_x| 1);

// ---- derived types ---------------------------------------------------------------------

fn deep_s() -> DeepS<Vec<u16>> { DeepS { id: any(), data: vec_upto::<u16, 2>(), tail: any() } }
case!(DeepSVec: DeepS<Vec<u16>>, make = |_s| deep_s(), same = |a, b| a.id == b.id && eqs(&a.data, &b.data) && a.tail == b.tail,
      eps = |x, e| { let e: &DeepS<&[u16]> = e; x.id == e.id && eqs(&x.data, e.data) && x.tail == e.tail },
      borrows = |e, out| { out.slice(e.data, 0); }, n = |_x| 1);
fn deep_str(s: usize) -> DeepS<String> { DeepS { id: any(), data: str3(s), tail: any() } }
case!(DeepSStr: DeepS<String>, shapes = 3, make = |s| deep_str(s), same = |a, b| a.id == b.id && eqstr(&a.data, &b.data) && a.tail == b.tail,
      eps = |x, e| { let e: &DeepS<&str> = e; x.id == e.id && eqstr(&x.data, e.data) && x.tail == e.tail },
      borrows = |e, out| { out.str(e.data, 0); }, n = |_x| 1);
fn deep_u32() -> DeepS<u32> { DeepS { id: any(), data: any(), tail: any() } }
case!(DeepSU32: DeepS<u32>, make = |_s| deep_u32(), same = |a, b| a == b,
      eps = |x, e| { let e: &DeepS<u32> = e; x == e });
fn mention() -> Mention<u16> { Mention { v: vec_upto::<u16, 2>(), k: any() } }
case!(MentionU16: Mention<u16>, make = |_s| mention(), same = |a, b| eqs(&a.v, &b.v) && a.k == b.k,
      eps = |x, e| { let e: &Mention<u16> = e; eqs(&x.v, &e.v) && x.k == e.k },
      alloc = |x| x.v.len() * 2);
fn both() -> Both<Vec<u8>, u16, String> { Both { a: vec_upto::<u8, 2>(), vb: vec_upto::<u16, 1>(), _p: PhantomData } }
case!(BothC: Both<Vec<u8>, u16, String>, make = |_s| both(), same = |a, b| eqs(&a.a, &b.a) && eqs(&a.vb, &b.vb),
      eps = |x, e| { let e: &Both<&[u8], u16, String> = e; eqs(&x.a, e.a) && eqs(&x.vb, &e.vb) },
      borrows = |e, out| { out.slice(e.a, 0); }, n = |_x| 1,
      alloc = |x| x.vb.len() * 2);
// A primitive bound to a parameter (deserialized through its ε-copy method) in front of an
// aligned sequence: the position bookkeeping of the primitive's ε-copy reader decides the
// padding that follows (seeded change C02b: `bool` advanced the data but not the position).
macro_rules! both_prim {
    ($($name:ident, $f:ident: $t:ty),* $(,)?) => {$(
        fn $f() -> Both<$t, u32, ()> { Both { a: any(), vb: vec_upto::<u32, 1>(), _p: PhantomData } }
        case!($name: Both<$t, u32, ()>, make = |_s| $f(), same = |a, b| a.a == b.a && eqs(&a.vb, &b.vb),
              eps = |x, e| { let e: &Both<$t, u32, ()> = e; x.a == e.a && eqs(&x.vb, &e.vb) },
              alloc = |x| x.vb.len() * 4);
    )*};
}
both_prim!(BothBool, both_bool: bool, BothU8, both_u8: u8, BothOptU8, both_optu8: Option<u8>, BothNzU8, both_nzu8: NonZeroU8,
           BothChar, both_char: char, BothOptBool, both_optbool: Option<bool>);
fn gen() -> Gen<Vec<u16>, 2> { Gen { a: vec_upto::<u16, 2>(), b: any() } }
case!(GenC: Gen<Vec<u16>, 2>, make = |_s| gen(), same = |a, b| eqs(&a.a, &b.a) && a.b[0] == b.b[0] && a.b[1] == b.b[1],
      eps = |x, e| { let e: &Gen<&[u16], 2> = e; eqs(&x.a, e.a) && x.b[0] == e.b[0] && x.b[1] == e.b[1] },
      borrows = |e, out| { out.slice(e.a, 0); }, n = |_x| 1);
fn tups() -> TupS { TupS(any(), vec_upto::<u16, 2>(), any()) }
case!(TupSC: TupS, make = |_s| tups(), same = |a, b| a.0 == b.0 && eqs(&a.1, &b.1) && a.2 == b.2, eps = |x, e| { let e: &TupS = e; x.0 == e.0 && eqs(&x.1, &e.1) && x.2 == e.2 },
      alloc = |x| x.1.len() * 2);
case!(UnitSC: UnitS, make = |_s| UnitS, same = |a, b| a == b, eps = |x, e| { let e: &UnitS = e; x == e });
fn deep_prims() -> DeepPrims { DeepPrims { a: any(), b: any(), c: any() } }
case!(DeepPrimsC: DeepPrims, make = |_s| deep_prims(), same = |a, b| a == b, eps = |x, e| { let e: &DeepPrims = e; x == e });
fn hold_zunit() -> Hold<ZUnit> { Hold { a: any(), z: ZUnit, b: any() } }
case!(HoldZUnit: Hold<ZUnit>, make = |_s| hold_zunit(), same = |a, b| a == b,
      eps = |x, e| { let e: &Hold<&ZUnit> = e; x.a == e.a && x.b == e.b });
fn hold_zal4() -> Hold<ZAl4> { Hold { a: any(), z: ZAl4, b: any() } }
case!(HoldZAl4: Hold<ZAl4>, make = |_s| hold_zal4(), same = |a, b| a == b,
      eps = |x, e| { let e: &Hold<&ZAl4> = e; x.a == e.a && x.b == e.b });
fn hold_zeros() -> Hold<ZeroS> { Hold { a: any(), z: any(), b: any() } }
case!(HoldZeroS: Hold<ZeroS>, make = |_s| hold_zeros(), same = |a, b| a == b,
      eps = |x, e| { let e: &Hold<&ZeroS> = e; x.a == e.a && x.z == *e.z && x.b == e.b },
      borrows = |e, out| { out.re(e.z, 0); }, n = |_x| 1);

macro_rules! zstruct {
    ($($name:ident : $t:ty),* $(,)?) => {$(
        case!($name: $t, make = |_s| any(), same = |a, b| a == b, eps = |x, e| { let e: &&$t = e; x == *e },
              borrows = |e, out| { out.re(*e, 0); }, n = |_x| 1);
    )*};
}
zstruct!(ZeroSC: ZeroS, ZTailC: ZTail, ZAl32C: ZAl32, ZGenU32: ZGen<u32>, ZNestC: ZNest, ZConst3: ZConst<3>, ZEC: ZE);
// zero-sized zero-copy: the reference carries no bytes; no borrow obligations
case!(ZUnitC: ZUnit, make = |_s| ZUnit, same = |a, b| a == b, eps = |x, e| { let e: &&ZUnit = e; true });
case!(ZAl4C: ZAl4, make = |_s| ZAl4, same = |a, b| a == b, eps = |x, e| { let e: &&ZAl4 = e; true });

fn en_u8() -> En<u8> {
    let t: u8 = any();
    assume(t < 3);
    match t { 0 => En::A, 1 => En::B(any()), _ => En::C { x: any(), y: any() } }
}
case!(EnU8: En<u8>, make = |_s| en_u8(), same = |a, b| a == b, eps = |x, e| { let e: &En<u8> = e; x == e });
fn en_vec() -> En<Vec<u16>> {
    let t: u8 = any();
    assume(t < 3);
    match t { 0 => En::A, 1 => En::B(vec_upto::<u16, 2>()), _ => En::C { x: any(), y: vec_upto::<u16, 1>() } }
}
case!(EnVec: En<Vec<u16>>, make = |_s| en_vec(), same = |a, b| match (a, b) { (En::A, En::A) => true, (En::B(a), En::B(b)) => eqs(a, b), (En::C { x: x1, y: y1 }, En::C { x: x2, y: y2 }) => x1 == x2 && eqs(y1, y2), _ => false },
      eps = |x, e| { let e: &En<&[u16]> = e; match (x, e) { (En::A, En::A) => true, (En::B(a), En::B(b)) => eqs(a, b),
                      (En::C { x: x1, y: y1 }, En::C { x: x2, y: y2 }) => x1 == x2 && eqs(y1, y2), _ => false } },
      borrows = |e, out| { match e { En::A => {}, En::B(b) => out.slice(*b, 0), En::C { y, .. } => out.slice(*y, 0) } },
      n = |x| if matches!(x, En::A) { 0 } else { 1 });
fn e1() -> E1 { E1::Only(any()) }
case!(E1C: E1, make = |_s| e1(), same = |a, b| a == b, eps = |x, e| { let e: &E1 = e; x == e });
fn e2() -> E2 { if any::<bool>() { E2::Yes } else { E2::No } }
case!(E2C: E2, make = |_s| e2(), same = |a, b| a == b, eps = |x, e| { let e: &E2 = e; x == e });
fn e5() -> E5<Vec<u8>> {
    let t: u8 = any();
    assume(t < 5);
    match t { 0 => E5::A, 1 => E5::B(any()), 2 => E5::C(any(), vec_upto::<u16, 1>()),
              3 => E5::D { a: any(), b: vec_upto::<u8, 2>() }, _ => E5::E }
}
case!(E5C: E5<Vec<u8>>, make = |_s| e5(), same = |a, b| match (a, b) { (E5::A, E5::A) | (E5::E, E5::E) => true, (E5::B(a), E5::B(b)) => a == b, (E5::C(a, v), E5::C(b, w)) => a == b && eqs(v, w), (E5::D { a: a1, b: b1 }, E5::D { a: a2, b: b2 }) => a1 == a2 && eqs(b1, b2), _ => false },
      eps = |x, e| { let e: &E5<&[u8]> = e; match (x, e) { (E5::A, E5::A) | (E5::E, E5::E) => true, (E5::B(a), E5::B(b)) => a == b,
                      (E5::C(a, v), E5::C(b, w)) => a == b && eqs(v, w),
                      (E5::D { a: a1, b: b1 }, E5::D { a: a2, b: b2 }) => a1 == a2 && eqs(b1, b2), _ => false } },
      borrows = |e, out| { if let E5::D { b, .. } = e { out.slice(*b, 0); } }, n = |x| if matches!(x, E5::D { .. }) { 1 } else { 0 },
      alloc = |x| match x { E5::C(_, v) => v.len() * 2, _ => 0 });

// ---- more compositions (thorough tier) ------------------------------------------------------

zvec!(VecChar: char, 2, VecBool: bool, 3, VecNzU32: NonZeroU32, 2, VecI64: i64, 2, VecTup1U8: (u8,), 3,
      VecArrU8x0: [u8; 0], 2, VecRangeToInclU8: RangeToInclusive<u8>, 3, VecZGenU32: ZGen<u32>, 2, VecZConst3: ZConst<3>, 2);
fn vec_f32() -> Vec<f32> { vec_upto::<f32, 2>() }
fn eq_f32s(a: &[f32], b: &[f32]) -> bool {
    if a.len() != b.len() { return false; }
    let mut i = 0;
    while i < a.len() { if a[i].to_bits() != b[i].to_bits() { return false; } i += 1; }
    true
}
case!(VecF32: Vec<f32>, make = |_s| vec_f32(), same = |a, b| eq_f32s(a, b), eps = |x, e| eq_f32s(x, e),
      borrows = |e, out| { out.slice(*e, 0); }, n = |_x| 1);
plain!(OptBool: Option<bool>, OptChar: Option<char>, OptRangeU32: Option<Range<u32>>, CfUnitU8: ControlFlow<(), u8>, OptPhantom: Option<PhantomData<u8>>,
       RangeU64: Range<u64>, BoundUnit: Bound<()>, OptNzU8: Option<NonZeroU8>);
fn range_incl_u8() -> RangeInclusive<u8> { any::<u8>()..=any::<u8>() }
case!(RangeInclU8: RangeInclusive<u8>, make = |_s| range_incl_u8(), same = |a, b| a == b, eps = |x, e| x == e);
fn opt_string(s: usize) -> Option<String> { if any::<bool>() { Some(str3(s)) } else { None } }
case!(OptString: Option<String>, shapes = 3, make = |s| opt_string(s),
      same = |a, b| match (a, b) { (None, None) => true, (Some(a), Some(b)) => eqstr(a, b), _ => false },
      eps = |x, e| match (x, e) { (None, None) => true, (Some(a), Some(b)) => eqstr(a, b), _ => false },
      borrows = |e, out| { if let Some(s) = e { out.str(*s, 0); } }, n = |x| if x.is_some() { 1 } else { 0 });
fn bound_vec() -> Bound<Vec<u8>> {
    let t: u8 = any();
    assume(t < 3);
    match t { 0 => Bound::Unbounded, 1 => Bound::Included(vec_upto::<u8, 2>()), _ => Bound::Excluded(vec_upto::<u8, 2>()) }
}
case!(BoundVecU8: Bound<Vec<u8>>, make = |_s| bound_vec(),
      same = |a, b| match (a, b) { (Bound::Unbounded, Bound::Unbounded) => true, (Bound::Included(a), Bound::Included(b)) => eqs(a, b), (Bound::Excluded(a), Bound::Excluded(b)) => eqs(a, b), _ => false },
      eps = |x, e| match (x, e) { (Bound::Unbounded, Bound::Unbounded) => true, (Bound::Included(a), Bound::Included(b)) => eqs(a, b), (Bound::Excluded(a), Bound::Excluded(b)) => eqs(a, b), _ => false },
      borrows = |e, out| { match e { Bound::Included(s) | Bound::Excluded(s) => out.slice(*s, 0), _ => {} } }, n = |x| if matches!(x, Bound::Unbounded) { 0 } else { 1 });
/// (outer len, inner lens) of a boxed slice of vectors
pub const BV_SHAPES: [(usize, usize, usize); 4] = [(0, 0, 0), (1, 2, 0), (2, 0, 1), (2, 2, 2)];
fn box_vec_u8(s: usize) -> Box<[Vec<u8>]> {
    let (o, a, b) = BV_SHAPES[s];
    let mut v = Vec::with_capacity(2);
    if o >= 1 { v.push(vec_n::<u8>(a)); }
    if o >= 2 { v.push(vec_n::<u8>(b)); }
    v.into_boxed_slice()
}
fn eq_bv(a: &[Vec<u8>], b: &[Vec<u8>]) -> bool {
    if a.len() != b.len() { return false; }
    let mut i = 0;
    while i < a.len() { if !eqs(&a[i], &b[i]) { return false; } i += 1; }
    true
}
fn eq_bv_eps(a: &[Vec<u8>], e: &[&[u8]]) -> bool {
    if a.len() != e.len() { return false; }
    let mut i = 0;
    while i < a.len() { if !eqs(&a[i], e[i]) { return false; } i += 1; }
    true
}
case!(BoxVecU8: Box<[Vec<u8>]>, shapes = 4, make = |s| box_vec_u8(s), same = |a, b| eq_bv(a, b), eps = |x, e| eq_bv_eps(x, e),
      borrows = |e, out| { let mut i = 0; while i < e.len() { out.slice(e[i], i); i += 1; } }, n = |x| x.len(),
      alloc = |x| x.len() * core::mem::size_of::<&[u8]>());
zarr!(ArrArrU32x0: [u32; 0], 2, ArrZUnitx3: ZUnit, 3, ArrZAl4x2: ZAl4, 2, ArrTup2x2: (u16, u16), 2);
case!(TupZeroS2: (ZeroS, ZeroS), make = |_s| any(), same = |a, b| a == b, eps = |x, e| x == *e, borrows = |e, out| { out.re(*e, 0); }, n = |_x| 1);
case!(TupF64x2: (f64, f64), make = |_s| (any(), any()), same = |a, b| a.0.to_bits() == b.0.to_bits() && a.1.to_bits() == b.1.to_bits(),
      eps = |x, e| x.0.to_bits() == e.0.to_bits() && x.1.to_bits() == e.1.to_bits(), borrows = |e, out| { out.re(*e, 0); }, n = |_x| 1);
fn hold_vec_zunit() -> Hold<Vec<ZUnit>> { Hold { a: any(), z: vec_upto::<ZUnit, 2>(), b: any() } }
case!(HoldVecZUnit: Hold<Vec<ZUnit>>, make = |_s| hold_vec_zunit(), same = |a, b| a.a == b.a && a.z.len() == b.z.len() && a.b == b.b,
      eps = |x, e| { let e: &Hold<&[ZUnit]> = e; x.a == e.a && x.z.len() == e.z.len() && x.b == e.b },
      borrows = |e, out| { out.slice(e.z, 0); }, n = |_x| 1);
fn hold_arr0() -> Hold<[u64; 0]> { Hold { a: any(), z: [], b: any() } }
case!(HoldArrU64x0: Hold<[u64; 0]>, make = |_s| hold_arr0(), same = |a, b| a.a == b.a && a.b == b.b,
      eps = |x, e| { let e: &Hold<&[u64; 0]> = e; x.a == e.a && x.b == e.b },
      borrows = |e, out| { out.re(e.z, 0); }, n = |_x| 1);
fn en_zeros() -> En<ZeroS> {
    let t: u8 = any();
    assume(t < 3);
    match t { 0 => En::A, 1 => En::B(any()), _ => En::C { x: any(), y: any() } }
}
case!(EnZeroS: En<ZeroS>, make = |_s| en_zeros(), same = |a, b| a == b,
      eps = |x, e| { let e: &En<&ZeroS> = e; match (x, e) { (En::A, En::A) => true, (En::B(a), En::B(b)) => a == *b, (En::C { x: x1, y: y1 }, En::C { x: x2, y: y2 }) => x1 == x2 && y1 == *y2, _ => false } },
      borrows = |e, out| { match e { En::A => {}, En::B(b) => out.re(*b, 0), En::C { y, .. } => out.re(*y, 0) } }, n = |x| if matches!(x, En::A) { 0 } else { 1 });

// ---- nesting of derived types in containers ------------------------------------------------

fn opt_zeros() -> Option<ZeroS> { any() }
case!(OptZeroS: Option<ZeroS>, make = |_s| opt_zeros(), same = |a, b| a == b,
      eps = |x, e| match (x, e) { (None, None) => true, (Some(a), Some(b)) => a == *b, _ => false },
      borrows = |e, out| { if let Some(r) = e { out.re(*r, 0); } }, n = |x| if x.is_some() { 1 } else { 0 });
fn vec_deeps(s: usize) -> Vec<DeepS<Vec<u8>>> {
    let mut v = Vec::with_capacity(1);
    if s == 1 { v.push(DeepS { id: any(), data: vec_upto::<u8, 2>(), tail: any() }); }
    v
}
case!(VecDeepS: Vec<DeepS<Vec<u8>>>, shapes = 2, make = |s| vec_deeps(s), same = |a, b| a.len() == b.len() && (a.len() == 0 || (a[0].id == b[0].id && eqs(&a[0].data, &b[0].data) && a[0].tail == b[0].tail)),
      eps = |x, e| { let e: &Vec<DeepS<&[u8]>> = e; x.len() == e.len() && (x.len() == 0 ||
                      (x[0].id == e[0].id && eqs(&x[0].data, e[0].data) && x[0].tail == e[0].tail)) },
      borrows = |e, out| { if e.len() == 1 { out.slice(e[0].data, 0); } }, n = |x| x.len(),
      alloc = |x| x.len() * core::mem::size_of::<DeepS<&[u8]>>());
