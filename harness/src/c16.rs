//! C16 — slice references and exact-size-iterator wrappers serialize
//! byte-for-byte (header included) like the vector; lying iterators yield
//! IteratorLengthMismatch with both counts.
use crate::cases::*;
use crate::env::*;
use crate::sym::{self, any, assume, vec_upto, Sym};
use crate::universe::*;
use epserde::prelude::*;
use epserde::ser::{Error as SE, Serialize, SerializeInner, WriteWithPos, WriterWithPos};

fn same_stream<const N: usize>(a: &Sink<N>, na: usize, b: &Sink<N>, nb: usize) {
    assert!(na == nb && a.len == b.len && na == a.len, "C16: byte counts agree with the vector's");
    let k: usize = any();
    assume(k < N);
    assert!(a.buf[k] == b.buf[k], "C16: stream is byte-for-byte the vector's stream");
}

/// With header: Vec<T> vs &[T] vs SerIter, zero-copy elements.
fn with_header<T: Sym + ZeroCopy + SerializeInner + DeserializeInner + TypeHash + AlignHash + PartialEq, const MAX: usize, const N: usize>()
where
    Vec<T>: Serialize + SerializeInner,
    for<'a> &'a [T]: Serialize,
    for<'a> SerIter<'a, T, core::slice::Iter<'a, T>>: Serialize,
{
    let v: Vec<T> = vec_upto::<T, MAX>();
    let mut a = Sink::<N>::new();
    let na = v.serialize(&mut a).unwrap();
    let mut b = Sink::<N>::new();
    let s: &[T] = v.as_slice();
    let nb = s.serialize(&mut b).unwrap();
    same_stream(&a, na, &b, nb);
    let mut c = Sink::<N>::new();
    let it = SerIter::new(v.iter());
    let nc = it.serialize(&mut c).unwrap();
    same_stream(&a, na, &c, nc);
    crate::cover!(v.len() == 0, "empty sequence");
    crate::cover!(v.len() == MAX, "longest sequence");
}
#[cfg_attr(kani, kani::proof)] #[cfg_attr(kani, kani::unwind(60))]
pub fn c16_hdr_u16() { with_header::<u16, 3, 96>() }
#[cfg_attr(kani, kani::proof)] #[cfg_attr(kani, kani::unwind(60))]
pub fn c16_hdr_u64() { with_header::<u64, 2, 96>() }
#[cfg_attr(kani, kani::proof)] #[cfg_attr(kani, kani::unwind(70))]
pub fn c16_hdr_zeros() { with_header::<ZeroS, 2, 128>() }

/// Inner streams (no header): more element types, incl. u8 and deep elements for slices.
fn inner_zero<T: Sym + ZeroCopy + SerializeInner + TypeHash + AlignHash, const MAX: usize, const N: usize, const PRE: usize>()
where
    Vec<T>: SerializeInner,
    for<'a> &'a [T]: SerializeInner,
    for<'a> SerIter<'a, T, core::slice::Iter<'a, T>>: SerializeInner,
{
    let v: Vec<T> = vec_upto::<T, MAX>();
    let mut a = Sink::<N>::new();
    let mut b = Sink::<N>::new();
    let mut c = Sink::<N>::new();
    let (na, nb, nc);
    { let mut w = WriterWithPos::new(&mut a); w.write_all(&[0xAA; PRE]).unwrap(); SerializeInner::_serialize_inner(&v, &mut w).unwrap(); na = w.pos(); }
    { let s: &[T] = v.as_slice(); let mut w = WriterWithPos::new(&mut b); w.write_all(&[0xAA; PRE]).unwrap(); SerializeInner::_serialize_inner(&s, &mut w).unwrap(); nb = w.pos(); }
    { let it = SerIter::new(v.iter()); let mut w = WriterWithPos::new(&mut c); w.write_all(&[0xAA; PRE]).unwrap(); SerializeInner::_serialize_inner(&it, &mut w).unwrap(); nc = w.pos(); }
    same_stream(&a, na, &b, nb);
    same_stream(&a, na, &c, nc);
}
use epserde::ser::WriteNoStd;
#[cfg_attr(kani, kani::proof)] #[cfg_attr(kani, kani::unwind(6))]
pub fn c16_inner_u8_p0() { inner_zero::<u8, 3, 32, 0>() }
#[cfg_attr(kani, kani::proof)] #[cfg_attr(kani, kani::unwind(6))]
pub fn c16_inner_u16_p1() { inner_zero::<u16, 3, 32, 1>() }
#[cfg_attr(kani, kani::proof)] #[cfg_attr(kani, kani::unwind(6))]
pub fn c16_inner_u64_p3() { inner_zero::<u64, 2, 48, 3>() }
#[cfg_attr(kani, kani::proof)] #[cfg_attr(kani, kani::unwind(6))]
pub fn c16_inner_u128_p5() { inner_zero::<u128, 2, 64, 5>() }
#[cfg_attr(kani, kani::proof)] #[cfg_attr(kani, kani::unwind(6))]
pub fn c16_inner_zeros_p2() { inner_zero::<ZeroS, 2, 48, 2>() }
#[cfg_attr(kani, kani::proof)] #[cfg_attr(kani, kani::unwind(6))]
pub fn c16_inner_unit_p0() { inner_zero::<(), 2, 16, 0>() }

/// Deep elements behind a slice reference: &[Vec<u8>] vs Vec<Vec<u8>>.
#[cfg_attr(kani, kani::proof)] #[cfg_attr(kani, kani::unwind(5))]
pub fn c16_inner_slice_deep() {
    let n = sym::len_upto(2);
    let mut v: Vec<Vec<u8>> = Vec::with_capacity(2);
    let mut i = 0;
    while i < n { v.push(vec_upto::<u8, 2>()); i += 1; }
    let mut a = Sink::<48>::new();
    let mut b = Sink::<48>::new();
    let (na, nb);
    { let mut w = WriterWithPos::new(&mut a); SerializeInner::_serialize_inner(&v, &mut w).unwrap(); na = w.pos(); }
    { let s: &[Vec<u8>] = v.as_slice(); let mut w = WriterWithPos::new(&mut b); SerializeInner::_serialize_inner(&s, &mut w).unwrap(); nb = w.pos(); }
    same_stream(&a, na, &b, nb);
}

/// Nested in a generic structure: the header is written from `SerType`, which
/// must be *the vector-holding type itself* (type-level equality: the same
/// generic instantiation of write_header, hence the same header bytes), and the
/// inner streams are byte-for-byte equal.
#[cfg_attr(kani, kani::proof)] #[cfg_attr(kani, kani::unwind(6))]
pub fn c16_sertype_nested() {
    use core::marker::PhantomData;
    let _a: PhantomData<DeepS<Vec<u16>>> = PhantomData::<<DeepS<&[u16]> as SerializeInner>::SerType>;
    let _b: PhantomData<DeepS<Vec<u16>>> = PhantomData::<<DeepS<SerIter<'static, u16, core::slice::Iter<'static, u16>>> as SerializeInner>::SerType>;
    let _c: PhantomData<Vec<u16>> = PhantomData::<<&[u16] as SerializeInner>::SerType>;
    let v: Vec<u16> = vec_upto::<u16, 2>();
    let id: u16 = any();
    let tail: Option<u8> = any();
    let mut a = Sink::<32>::new();
    let mut b = Sink::<32>::new();
    let mut c = Sink::<32>::new();
    let (na, nb, nc);
    { let x = DeepS { id, data: v.clone(), tail }; let mut w = WriterWithPos::new(&mut a); w.write_all(&[0xAA; 1]).unwrap(); SerializeInner::_serialize_inner(&x, &mut w).unwrap(); na = w.pos(); }
    { let x = DeepS { id, data: v.as_slice(), tail }; let mut w = WriterWithPos::new(&mut b); w.write_all(&[0xAA; 1]).unwrap(); SerializeInner::_serialize_inner(&x, &mut w).unwrap(); nb = w.pos(); }
    { let x = DeepS { id, data: SerIter::new(v.iter()), tail }; let mut w = WriterWithPos::new(&mut c); w.write_all(&[0xAA; 1]).unwrap(); SerializeInner::_serialize_inner(&x, &mut w).unwrap(); nc = w.pos(); }
    same_stream(&a, na, &b, nb);
    same_stream(&a, na, &c, nc);
}

/// Nested in a generic structure (parameter field), header included.
#[cfg_attr(kani, kani::proof)] #[cfg_attr(kani, kani::unwind(90))]
pub fn c16_hdr_nested() {
    let v: Vec<u16> = vec_upto::<u16, 2>();
    let id: u16 = any();
    let tail: Option<u8> = any();
    let mut a = Sink::<128>::new();
    let na = DeepS { id, data: v.clone(), tail }.serialize(&mut a).unwrap();
    let mut b = Sink::<128>::new();
    let nb = DeepS { id, data: v.as_slice(), tail }.serialize(&mut b).unwrap();
    same_stream(&a, na, &b, nb);
    let mut c = Sink::<128>::new();
    let nc = DeepS { id, data: SerIter::new(v.iter()), tail }.serialize(&mut c).unwrap();
    same_stream(&a, na, &c, nc);
}

/// The slice/iterator streams deserialize as the vector type in both modes
/// (inner streams; the headers are compared byte for byte in `c16_hdr_*`).
#[cfg_attr(kani, kani::proof)] #[cfg_attr(kani, kani::unwind(6))]
pub fn c16_deser_as_vec() {
    let v: Vec<u16> = vec_upto::<u16, 2>();
    let mut b = Sink::<32>::new();
    let nb;
    { let it = SerIter::new(v.iter()); let mut w = WriterWithPos::new(&mut b); w.write_all(&[0xAA; 1]).unwrap(); SerializeInner::_serialize_inner(&it, &mut w).unwrap(); nb = w.pos(); }
    let mut al = Al::<32>::zero();
    al.0 = b.buf;
    let mut sl = epserde::deser::SliceWithPos { data: &al.0[1..nb], pos: 1 };
    let e = <Vec<u16> as DeserializeInner>::_deserialize_eps_inner(&mut sl);
    match &e { Ok(e) => { assert!(eqs(e, &v) && sl.pos == nb, "C16: iterator stream eps-deserializes as the vector"); } Err(_) => { assert!(false, "C16: iterator stream is accepted as Vec<T>"); } }
    core::mem::forget(e);
    let mut sf = epserde::deser::SliceWithPos { data: &al.0[1..nb], pos: 1 };
    let f = <Vec<u16> as DeserializeInner>::_deserialize_full_inner(&mut sf);
    match &f { Ok(f) => { assert!(eqs(f, &v) && sf.pos == nb, "C16: iterator stream full-deserializes as the vector"); } Err(_) => { assert!(false, "C16: iterator stream is accepted as Vec<T>"); } }
    core::mem::forget(f);
}

/// An ExactSizeIterator that lies about its length.
pub struct Liar<'a, T> {
    pub items: &'a [T],
    pub next: usize,
    pub actual: usize,
    pub announced: usize,
}
impl<'a, T> Iterator for Liar<'a, T> {
    type Item = &'a T;
    fn next(&mut self) -> Option<&'a T> {
        if self.next < self.actual { let r = &self.items[self.next]; self.next += 1; Some(r) } else { None }
    }
    fn size_hint(&self) -> (usize, Option<usize>) { (self.announced, Some(self.announced)) }
}
impl<'a, T> ExactSizeIterator for Liar<'a, T> {
    fn len(&self) -> usize { self.announced }
}

fn lying<T: Sym + ZeroCopy + SerializeInner + TypeHash + AlignHash, const DEEP: bool>() {
    let items: [T; 4] = [any(), any(), any(), any()];
    let actual: usize = any();
    let announced: usize = any();
    assume(actual <= 4 && announced <= 4);
    let it = SerIter::new(Liar { items: &items, next: 0, actual, announced });
    let mut s = Sink::<64>::new();
    let mut w = WriterWithPos::new(&mut s);
    let r = SerializeInner::_serialize_inner(&it, &mut w);
    match r {
        Ok(()) => { crate::cover!(true, "honest iterator"); assert!(actual == announced, "C16: success although the iterator lied about its length"); }
        Err(SE::IteratorLengthMismatch { actual: a, expected: e }) => {
            crate::cover!(actual < announced, "too few items");
            crate::cover!(actual > announced, "too many items");
            assert!(actual != announced, "C16: mismatch reported for an honest iterator");
            assert!(a == actual && e == announced, "C16: the error reports both counts");
        }
        Err(_) => { assert!(false, "C16: only a length-mismatch error is expected"); }
    }
}
#[cfg_attr(kani, kani::proof)] #[cfg_attr(kani, kani::unwind(7))]
pub fn c16_lying_u16() { lying::<u16, false>() }
#[cfg_attr(kani, kani::proof)] #[cfg_attr(kani, kani::unwind(7))]
pub fn c16_lying_u64() { lying::<u64, false>() }

/// Reachability twin.
#[cfg_attr(kani, kani::proof)] #[cfg_attr(kani, kani::unwind(6))]
pub fn c16_twin_reach() {
    let v: Vec<u16> = vec_upto::<u16, 2>();
    let w2: Vec<u16> = vec_upto::<u16, 2>();
    let mut a = Sink::<32>::new();
    let mut b = Sink::<32>::new();
    { let mut w = WriterWithPos::new(&mut a); SerializeInner::_serialize_inner(&v, &mut w).unwrap(); }
    { let mut w = WriterWithPos::new(&mut b); SerializeInner::_serialize_inner(&w2, &mut w).unwrap(); }
    let k: usize = any();
    assume(k < 32);
    assert!(a.buf[k] == b.buf[k], "TWIN: must be violated (different vectors give different streams)");
}
