//! C10 — corruption of the 29 fixed header bytes.  All 2^232 values of the
//! header are symbolic at once (a superset of every single-bit flip, of the
//! reversed cookie and of all 65536 minor versions); the oracle is the
//! priority list of the published format, written out independently.
use crate::cases::*;
use crate::env::*;
use crate::rt::Case;
use crate::sym::{self, any, assume};
use epserde::deser::{Deserialize, Error as DE};
use epserde::ser::Serialize;

#[derive(PartialEq, Eq, Clone, Copy)]
enum Exp {
    Ok,
    Endian,
    Magic(u64),
    Major(u16),
    Minor(u16),
    Usize(usize),
    TypeHash(u64),
    AlignHash(u64),
}

macro_rules! put29 {
    ($dst:expr, $src:expr; $($i:literal)*) => { $( $dst[$i] = $src[$i]; )* };
}

pub fn header_corrupt<C: Case, const EPS: bool, const N: usize>()
where
    C::T: Serialize + Deserialize,
{
    let x = C::make(0);
    let mut s = Sink::<N>::new();
    let n = match x.serialize(&mut s) {
        Ok(n) => n,
        Err(_) => { assert!(false, "HARNESS: serialization succeeds"); 0 }
    };
    assert!(n == s.len && n > 37, "HARNESS: stream has a header");
    let g = s.buf;
    let hdr: [u8; 29] = any();
    let mut al = Al::<N>::zero();
    al.0 = g;
    put29!(al.0, hdr; 0 1 2 3 4 5 6 7 8 9 10 11 12 13 14 15 16 17 18 19 20 21 22 23 24 25 26 27 28);
    let magic = u64_at(&hdr, 0);
    let major = u16_at(&hdr, 8);
    let minor = u16_at(&hdr, 10);
    let us = hdr[12];
    let th = u64_at(&hdr, 13);
    let ah = u64_at(&hdr, 21);
    let gth = u64_at(&g, 13);
    let gah = u64_at(&g, 21);
    assert!(u64_at(&g, 0) == u64::from_ne_bytes(*b"epserde ") && g[12] == 8, "HARNESS: valid stream starts with the cookie and pointer width 8");
    let magic_ok = u64::from_ne_bytes(*b"epserde ");
    let magic_rev = u64::from_le_bytes(magic_ok.to_be_bytes());
    let exp = if magic == magic_rev { Exp::Endian }
        else if magic != magic_ok { Exp::Magic(magic) }
        else if major != epserde::VERSION.0 { Exp::Major(major) }
        else if minor > epserde::VERSION.1 { Exp::Minor(minor) }
        else if us != 8 { Exp::Usize(us as usize) }
        else if th != gth { Exp::TypeHash(th) }
        else if ah != gah { Exp::AlignHash(ah) }
        else { Exp::Ok };
    let got;
    if EPS {
        let r = <C::T>::deserialize_eps(&al.0[..n]);
        got = match &r {
            Ok(e) => { assert!(C::same_eps(&x, e), "C10: accepted header yields the same value"); Exp::Ok }
            Err(e) => classify(e),
        };
        core::mem::forget(r);
    } else {
        let mut rd = Exact::new(&al.0[..n]);
        let r = <C::T>::deserialize_full(&mut rd);
        got = match &r {
            Ok(e) => { assert!(C::same(&x, e), "C10: accepted header yields the same value"); Exp::Ok }
            Err(e) => classify(e),
        };
        core::mem::forget(r);
    }
    crate::cover!(exp == Exp::Ok, "valid header (incl. lower minor) reachable");
    crate::cover!(exp == Exp::Ok && minor < epserde::VERSION.1, "lower minor accepted");
    crate::cover!(exp == Exp::Endian, "reversed cookie");
    crate::cover!(matches!(exp, Exp::Magic(_)), "wrong cookie");
    crate::cover!(matches!(exp, Exp::Major(_)), "major");
    crate::cover!(matches!(exp, Exp::Minor(_)), "minor");
    crate::cover!(matches!(exp, Exp::Usize(_)), "pointer width");
    crate::cover!(matches!(exp, Exp::TypeHash(_)), "type hash");
    crate::cover!(matches!(exp, Exp::AlignHash(_)), "align hash");
    assert!(got == exp, "C10: corrupted header yields exactly the specific error carrying the offending value (or the value, if still valid)");
}

fn classify(e: &DE) -> Exp {
    match e {
        DE::EndiannessError => Exp::Endian,
        DE::MagicCookieError(m) => Exp::Magic(*m),
        DE::MajorVersionMismatch(m) => Exp::Major(*m),
        DE::MinorVersionMismatch(m) => Exp::Minor(*m),
        DE::UsizeSizeMismatch(u) => Exp::Usize(*u),
        DE::WrongTypeHash { ser_type_hash, .. } => Exp::TypeHash(*ser_type_hash),
        DE::WrongAlignHash { ser_align_hash, .. } => Exp::AlignHash(*ser_align_hash),
        _ => { assert!(false, "C10: unexpected error kind for a header corruption"); Exp::Ok }
    }
}

macro_rules! hdr {
    ($($name:ident : $case:ty, $eps:literal, $n:literal, $unw:literal);* $(;)?) => {$(
        #[cfg_attr(kani, kani::proof)] #[cfg_attr(kani, kani::unwind($unw))]
        #[cfg_attr(kani, kani::stub(core::str::from_utf8, crate::env::from_utf8_stub))]
        pub fn $name() { header_corrupt::<$case, $eps, $n>() }
    )*};
}
hdr!(
    c10_u32_eps: U32, true, 64, 40; c10_u32_full: U32, false, 64, 40;
    c10_bool_eps: Bool, true, 64, 40; c10_bool_full: Bool, false, 64, 40;
    c10_u64_eps: U64, true, 64, 40; c10_u64_full: U64, false, 64, 40;
    c10_tup2_eps: Tup2, true, 64, 40; c10_tup2_full: Tup2, false, 64, 40;
    c10_arru32x1_eps: ArrU32x1, true, 64, 40; c10_arru32x1_full: ArrU32x1, false, 64, 40;
    c10_i8_eps: I8, true, 64, 40; c10_i8_full: I8, false, 64, 40;
);

/// Reachability twin.
#[cfg_attr(kani, kani::proof)] #[cfg_attr(kani, kani::unwind(40))]
pub fn c10_twin_reach() {
    let x: u32 = any();
    let mut s = Sink::<64>::new();
    let n = x.serialize(&mut s).unwrap();
    let mut al = Al::<64>::zero();
    al.0 = s.buf;
    al.0[9] = any();
    let r = <u32>::deserialize_eps(&al.0[..n]);
    let ok = r.is_ok();
    core::mem::forget(r);
    assert!(ok, "TWIN: must be violated (a corrupted major version is refused)");
}
