//! Independent reference encoder of ε-serde format 1.1, written from the
//! published description and sharing no code with /repo:
//!   header  = magic "epserde " (8 bytes), u16 major = 1, u16 minor = 1,
//!             u8 pointer width = 8, u64 type digest, u64 alignment digest,
//!             type name as usize length + bytes;
//!   value   = fields in declaration order; primitives native-endian;
//!             bool as one byte 0/1; char as u32; unit/PhantomData nothing;
//!             usize length prefixes; one-byte tags (Option 0/1, Bound 0/1/2,
//!             ControlFlow Break 0 / Continue 1); usize variant indices for
//!             derived enums; zero-copy data = its memory representation after
//!             zero padding to the type's alignment unit.
//! Digests and names come from golden.rs (recorded once from the pinned build).
use crate::universe::*;
use core::marker::PhantomData;
use core::ops::{Bound, ControlFlow, Range, RangeFrom, RangeFull, RangeInclusive, RangeTo, RangeToInclusive};

pub struct RefBuf<const N: usize> {
    pub b: [u8; N],
    /// false = don't-care byte (struct padding inside a zero-copy block)
    pub care: [bool; N],
    pub pos: usize,
}
impl<const N: usize> RefBuf<N> {
    pub fn new() -> Self { Self { b: [0; N], care: [true; N], pos: 0 } }
    pub fn put(&mut self, bytes: &[u8]) {
        // (memcpy, not a byte loop: every unwound iteration costs solver-side bookkeeping and driver memory)
        self.b[self.pos..self.pos + bytes.len()].copy_from_slice(bytes);
        self.pos += bytes.len();
    }
    pub fn dontcare(&mut self, k: usize) {
        let mut i = 0;
        while i < k { self.care[self.pos] = false; self.pos += 1; i += 1; }
    }
    /// zero padding up to a multiple of `unit`
    pub fn pad(&mut self, unit: usize) {
        while self.pos % unit != 0 { self.b[self.pos] = 0; self.pos += 1; }
    }
    pub fn header(&mut self, type_digest: u64, align_digest: u64, name: &str) {
        self.put(b"epserde ");
        self.put(&1u16.to_ne_bytes());
        self.put(&1u16.to_ne_bytes());
        self.put(&[8u8]);
        self.put(&type_digest.to_ne_bytes());
        self.put(&align_digest.to_ne_bytes());
        self.put(&name.len().to_ne_bytes());
        self.put(name.as_bytes());
    }
}

/// Value encoding per the format description.
pub trait Ref {
    fn enc<const N: usize>(&self, o: &mut RefBuf<N>);
}
/// Types that are written as raw memory: their alignment unit and in-memory image.
pub trait RefZero: Copy {
    const UNIT: usize;
    /// memory image (no leading padding), don't-care for struct padding
    fn image<const N: usize>(&self, o: &mut RefBuf<N>);
}

macro_rules! prim {
    ($($t:ty),*) => {$(
        impl Ref for $t { fn enc<const N: usize>(&self, o: &mut RefBuf<N>) { o.put(&self.to_ne_bytes()); } }
        impl RefZero for $t { const UNIT: usize = core::mem::size_of::<$t>(); fn image<const N: usize>(&self, o: &mut RefBuf<N>) { o.put(&self.to_ne_bytes()); } }
    )*};
}
prim!(u8, u16, u32, u64, u128, usize, i8, i16, i32, i64, i128, isize);
impl Ref for f32 { fn enc<const N: usize>(&self, o: &mut RefBuf<N>) { o.put(&self.to_bits().to_ne_bytes()); } }
impl Ref for f64 { fn enc<const N: usize>(&self, o: &mut RefBuf<N>) { o.put(&self.to_bits().to_ne_bytes()); } }
impl Ref for bool { fn enc<const N: usize>(&self, o: &mut RefBuf<N>) { o.put(&[if *self { 1 } else { 0 }]); } }
impl Ref for char { fn enc<const N: usize>(&self, o: &mut RefBuf<N>) { o.put(&(*self as u32).to_ne_bytes()); } }
impl Ref for () { fn enc<const N: usize>(&self, _o: &mut RefBuf<N>) {} }
impl RefZero for () { const UNIT: usize = 1; fn image<const N: usize>(&self, _o: &mut RefBuf<N>) {} }
impl<T> Ref for PhantomData<T> { fn enc<const N: usize>(&self, _o: &mut RefBuf<N>) {} }
impl Ref for RangeFull { fn enc<const N: usize>(&self, _o: &mut RefBuf<N>) {} }
macro_rules! nz { ($($t:ty),*) => {$( impl Ref for $t { fn enc<const N: usize>(&self, o: &mut RefBuf<N>) { o.put(&self.get().to_ne_bytes()); } } )*}; }
use core::num::*;
nz!(NonZeroU8, NonZeroU16, NonZeroU32, NonZeroU64, NonZeroU128, NonZeroUsize, NonZeroI8, NonZeroI16, NonZeroI32, NonZeroI64, NonZeroI128, NonZeroIsize);

impl<T: Ref> Ref for Option<T> {
    fn enc<const N: usize>(&self, o: &mut RefBuf<N>) {
        match self { None => o.put(&[0]), Some(v) => { o.put(&[1]); v.enc(o); } }
    }
}
impl<T: Ref> Ref for Bound<T> {
    fn enc<const N: usize>(&self, o: &mut RefBuf<N>) {
        match self { Bound::Unbounded => o.put(&[0]), Bound::Included(v) => { o.put(&[1]); v.enc(o); } Bound::Excluded(v) => { o.put(&[2]); v.enc(o); } }
    }
}
impl<B: Ref, C: Ref> Ref for ControlFlow<B, C> {
    fn enc<const N: usize>(&self, o: &mut RefBuf<N>) {
        match self { ControlFlow::Break(v) => { o.put(&[0]); v.enc(o); } ControlFlow::Continue(v) => { o.put(&[1]); v.enc(o); } }
    }
}
impl<T: Ref> Ref for Range<T> { fn enc<const N: usize>(&self, o: &mut RefBuf<N>) { self.start.enc(o); self.end.enc(o); } }
impl<T: Ref> Ref for RangeFrom<T> { fn enc<const N: usize>(&self, o: &mut RefBuf<N>) { self.start.enc(o); } }
impl<T: Ref> Ref for RangeTo<T> { fn enc<const N: usize>(&self, o: &mut RefBuf<N>) { self.end.enc(o); } }
impl<T: Ref> Ref for RangeToInclusive<T> { fn enc<const N: usize>(&self, o: &mut RefBuf<N>) { self.end.enc(o); } }
impl<T: Ref> Ref for RangeInclusive<T> {
    fn enc<const N: usize>(&self, o: &mut RefBuf<N>) { self.start().enc(o); self.end().enc(o); o.put(&[0]); /* not exhausted */ }
}

/// Sequence of zero-copy elements: length, zero padding to the unit, images.
pub fn enc_zero_slice<T: RefZero, const N: usize>(s: &[T], o: &mut RefBuf<N>) {
    o.put(&s.len().to_ne_bytes());
    o.pad(T::UNIT);
    let mut i = 0;
    while i < s.len() { s[i].image(o); i += 1; }
}
/// Sequence of deep elements: length, then each element.
pub fn enc_deep_slice<T: Ref, const N: usize>(s: &[T], o: &mut RefBuf<N>) {
    o.put(&s.len().to_ne_bytes());
    let mut i = 0;
    while i < s.len() { s[i].enc(o); i += 1; }
}
/// A single zero-copy value (arrays, tuples, zero-copy structs): padding + image.
pub fn enc_zero<T: RefZero, const N: usize>(v: &T, o: &mut RefBuf<N>) {
    o.pad(T::UNIT);
    v.image(o);
}
impl Ref for String { fn enc<const N: usize>(&self, o: &mut RefBuf<N>) { enc_zero_slice(self.as_bytes(), o); } }
impl Ref for Box<str> { fn enc<const N: usize>(&self, o: &mut RefBuf<N>) { enc_zero_slice(self.as_bytes(), o); } }

// arrays and tuples of zero-copy elements are zero-copy
impl<T: RefZero, const K: usize> RefZero for [T; K] {
    const UNIT: usize = T::UNIT;
    fn image<const N: usize>(&self, o: &mut RefBuf<N>) { let mut i = 0; while i < K { self[i].image(o); i += 1; } }
}
impl<T: RefZero> RefZero for (T,) { const UNIT: usize = T::UNIT; fn image<const N: usize>(&self, o: &mut RefBuf<N>) { self.0.image(o); } }
impl<T: RefZero> RefZero for (T, T) { const UNIT: usize = T::UNIT; fn image<const N: usize>(&self, o: &mut RefBuf<N>) { self.0.image(o); self.1.image(o); } }
impl<T: RefZero> RefZero for (T, T, T) { const UNIT: usize = T::UNIT; fn image<const N: usize>(&self, o: &mut RefBuf<N>) { self.0.image(o); self.1.image(o); self.2.image(o); } }
impl<T: RefZero> RefZero for RangeTo<T> { const UNIT: usize = core::mem::size_of::<RangeTo<T>>(); fn image<const N: usize>(&self, o: &mut RefBuf<N>) { self.end.image(o); } }

// derived zero-copy structs: repr(C) layout written out by hand
impl RefZero for ZeroS { const UNIT: usize = 4; fn image<const N: usize>(&self, o: &mut RefBuf<N>) { o.put(&[self.a]); o.dontcare(3); o.put(&self.b.to_ne_bytes()); } }
impl RefZero for ZTail { const UNIT: usize = 4; fn image<const N: usize>(&self, o: &mut RefBuf<N>) { o.put(&self.a.to_ne_bytes()); o.put(&[self.b]); o.dontcare(3); } }
impl RefZero for ZAl32 { const UNIT: usize = 32; fn image<const N: usize>(&self, o: &mut RefBuf<N>) { o.put(&self.x.to_ne_bytes()); o.dontcare(30); } }
impl RefZero for ZGen<u32> { const UNIT: usize = 4; fn image<const N: usize>(&self, o: &mut RefBuf<N>) { o.put(&self.a.to_ne_bytes()); o.put(&[self.b]); o.dontcare(3); } }
impl RefZero for ZNest { const UNIT: usize = 4; fn image<const N: usize>(&self, o: &mut RefBuf<N>) { self.z.image(o); self.w.image(o); o.dontcare(2); } }
impl RefZero for ZUnit { const UNIT: usize = 1; fn image<const N: usize>(&self, _o: &mut RefBuf<N>) {} }
impl RefZero for ZAl4 { const UNIT: usize = 4; fn image<const N: usize>(&self, _o: &mut RefBuf<N>) {} }
impl RefZero for ZConst<3> { const UNIT: usize = 2; fn image<const N: usize>(&self, o: &mut RefBuf<N>) { self.0.image(o); o.dontcare(1); o.put(&self.1.to_ne_bytes()); } }

macro_rules! via_zero { ($($t:ty),*) => {$( impl Ref for $t { fn enc<const N: usize>(&self, o: &mut RefBuf<N>) { enc_zero(self, o); } } )*}; }
via_zero!(ZeroS, ZTail, ZAl32, ZGen<u32>, ZNest, ZUnit, ZAl4, ZConst<3>, (u32,), (u16, u16), (u64, u64, u64));
impl<T: RefZero, const K: usize> Ref for [T; K] { fn enc<const N: usize>(&self, o: &mut RefBuf<N>) { enc_zero(self, o); } }
impl<const K: usize> Ref for [Vec<u16>; K] { fn enc<const N: usize>(&self, o: &mut RefBuf<N>) { let mut i = 0; while i < K { self[i].enc(o); i += 1; } } }
impl<const K: usize> Ref for [String; K] { fn enc<const N: usize>(&self, o: &mut RefBuf<N>) { let mut i = 0; while i < K { self[i].enc(o); i += 1; } } }

// sequences: which flavour is chosen by the element type (written out per instantiation)
macro_rules! zseq { ($($el:ty),*) => {$(
    impl Ref for Vec<$el> { fn enc<const N: usize>(&self, o: &mut RefBuf<N>) { enc_zero_slice(&self[..], o); } }
    impl Ref for Box<[$el]> { fn enc<const N: usize>(&self, o: &mut RefBuf<N>) { enc_zero_slice(&self[..], o); } }
)*}; }
zseq!(u8, u16, u32, u64, u128, (), [u16; 2], (u16, u16), ZeroS, ZTail, ZAl32, ZUnit, RangeTo<u32>);
macro_rules! dseq { ($($el:ty),*) => {$(
    impl Ref for Vec<$el> { fn enc<const N: usize>(&self, o: &mut RefBuf<N>) { enc_deep_slice(&self[..], o); } }
    impl Ref for Box<[$el]> { fn enc<const N: usize>(&self, o: &mut RefBuf<N>) { enc_deep_slice(&self[..], o); } }
)*}; }
dseq!(Vec<u16>, String, Option<u8>, DeepS<Vec<u8>>);

// derived deep-copy structs: fields in declaration order
impl<A: Ref> Ref for DeepS<A> { fn enc<const N: usize>(&self, o: &mut RefBuf<N>) { self.id.enc(o); self.data.enc(o); self.tail.enc(o); } }
impl Ref for Mention<u16> { fn enc<const N: usize>(&self, o: &mut RefBuf<N>) { self.v.enc(o); self.k.enc(o); } }
impl Ref for Both<Vec<u8>, u16, String> { fn enc<const N: usize>(&self, o: &mut RefBuf<N>) { self.a.enc(o); self.vb.enc(o); } }
impl Ref for Gen<Vec<u16>, 2> { fn enc<const N: usize>(&self, o: &mut RefBuf<N>) { self.a.enc(o); o.pad(4); o.put(&self.b[0].to_ne_bytes()); o.put(&self.b[1].to_ne_bytes()); } }
impl Ref for TupS { fn enc<const N: usize>(&self, o: &mut RefBuf<N>) { self.0.enc(o); self.1.enc(o); self.2.enc(o); } }
impl Ref for UnitS { fn enc<const N: usize>(&self, _o: &mut RefBuf<N>) {} }
impl Ref for DeepPrims { fn enc<const N: usize>(&self, o: &mut RefBuf<N>) { self.a.enc(o); self.b.enc(o); self.c.enc(o); } }
impl<A: Ref> Ref for Hold<A> { fn enc<const N: usize>(&self, o: &mut RefBuf<N>) { self.a.enc(o); self.z.enc(o); self.b.enc(o); } }
// derived enums: pointer-width variant index, then the variant's fields
impl<T: Ref> Ref for En<T> {
    fn enc<const N: usize>(&self, o: &mut RefBuf<N>) {
        match self { En::A => 0usize.enc(o), En::B(b) => { 1usize.enc(o); b.enc(o); } En::C { x, y } => { 2usize.enc(o); x.enc(o); y.enc(o); } }
    }
}
impl Ref for E1 { fn enc<const N: usize>(&self, o: &mut RefBuf<N>) { let E1::Only(v) = self; 0usize.enc(o); v.enc(o); } }
impl Ref for E2 { fn enc<const N: usize>(&self, o: &mut RefBuf<N>) { match self { E2::No => 0usize.enc(o), E2::Yes => 1usize.enc(o) } } }
impl<V: Ref> Ref for E5<V> {
    fn enc<const N: usize>(&self, o: &mut RefBuf<N>) {
        match self {
            E5::A => 0usize.enc(o), E5::B(b) => { 1usize.enc(o); b.enc(o); }
            E5::C(a, v) => { 2usize.enc(o); a.enc(o); v.enc(o); }
            E5::D { a, b } => { 3usize.enc(o); a.enc(o); b.enc(o); }
            E5::E => 4usize.enc(o),
        }
    }
}
