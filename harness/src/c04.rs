//! C04 — bytes written as one type are never accepted as a different type.
//! (a) solver: for reader type U and ANY stored type/alignment digest words
//!     (2^128 values) both deserializers return the hash errors by priority and
//!     never a value unless both words are U's.
//! (b) evaluated table: digests of the universe and of its near-miss mutants
//!     computed through the real TypeHash/AlignHash impls (derive output
//!     included) with the real xxh3 — no symbolic input, CBMC constant-folds
//!     (labelled "evaluation" in the evidence) — pairwise distinct where the
//!     structure differs, equal for the documented interchangeable trio.
//! (c) end to end: a symbolic value of T serialized, read back as near-miss U.
use crate::cases::*;
use crate::env::*;
use crate::hashes::*;
use crate::mutants as mu;
use crate::rt::Case;
use crate::sym::{self, any, assume, Sym};
use crate::universe::*;
use epserde::deser::{Deserialize, Error as DE};
use epserde::prelude::*;
use epserde::ser::Serialize;

// ---- (a) stored hash words symbolic ------------------------------------------------

macro_rules! put16 { ($dst:expr, $src:expr; $($i:literal)*) => { $( $dst[13 + $i] = $src[$i]; )* }; }

pub fn hash_words<C: Case, const EPS: bool>()
where
    C::T: Serialize + Deserialize,
{
    let x = C::make(0);
    let mut s = Sink::<64>::new();
    let n = match x.serialize(&mut s) { Ok(n) => n, Err(_) => { assert!(false, "HARNESS: serializes"); 0 } };
    let g = s.buf;
    let w: [u8; 16] = any();
    let mut al = Al::<64>::zero();
    al.0 = g;
    put16!(al.0, w; 0 1 2 3 4 5 6 7 8 9 10 11 12 13 14 15);
    let th = u64_at(&w, 0);
    let ah = u64_at(&w, 8);
    let (gth, gah) = (u64_at(&g, 13), u64_at(&g, 21));
    // 0 = value, 1 = type-hash error carrying th, 2 = align-hash error carrying ah, 3 = anything else
    let got: (u8, u64);
    if EPS {
        let r = <C::T>::deserialize_eps(&al.0[..n]);
        got = match &r {
            Ok(e) => { assert!(C::same_eps(&x, e), "C04: accepted bytes yield the value that was written"); (0, 0) }
            Err(DE::WrongTypeHash { ser_type_hash, .. }) => (1, *ser_type_hash),
            Err(DE::WrongAlignHash { ser_align_hash, .. }) => (2, *ser_align_hash),
            Err(_) => (3, 0),
        };
        core::mem::forget(r);
    } else {
        let mut rd = Exact::new(&al.0[..n]);
        let r = <C::T>::deserialize_full(&mut rd);
        got = match &r {
            Ok(e) => { assert!(C::same(&x, e), "C04: accepted bytes yield the value that was written"); (0, 0) }
            Err(DE::WrongTypeHash { ser_type_hash, .. }) => (1, *ser_type_hash),
            Err(DE::WrongAlignHash { ser_align_hash, .. }) => (2, *ser_align_hash),
            Err(_) => (3, 0),
        };
        core::mem::forget(r);
    }
    let exp: (u8, u64) = if th != gth { (1, th) } else if ah != gah { (2, ah) } else { (0, 0) };
    crate::cover!(exp.0 == 0, "both words are the reader's");
    crate::cover!(exp.0 == 1, "foreign type digest");
    crate::cover!(exp.0 == 2, "foreign alignment digest");
    assert!(got == exp, "C04: a stream whose stored digests differ from the reader's is refused with the hash error, never a value");
}
macro_rules! hw {
    ($($name:ident : $case:ty, $eps:literal);* $(;)?) => {$(
        #[cfg_attr(kani, kani::proof)] #[cfg_attr(kani, kani::unwind(64))]
        #[cfg_attr(kani, kani::stub(core::str::from_utf8, crate::env::from_utf8_stub))]
        pub fn $name() { hash_words::<$case, $eps>() }
    )*};
}
hw!(c04_words_u32_eps: U32, true; c04_words_u32_full: U32, false; c04_words_tup2_eps: Tup2, true; c04_words_tup2_full: Tup2, false;
    c04_words_optu8_eps: OptU8, true; c04_words_optu8_full: OptU8, false; c04_words_bool_eps: Bool, true; c04_words_arr_full: ArrU32x1, false);

// ---- (b) evaluated digest tables ---------------------------------------------------------

fn ne(a: (u64, u64), b: (u64, u64)) -> bool { a.0 != b.0 || a.1 != b.1 }

/// near-miss mutants of a deep struct
#[cfg_attr(kani, kani::proof)] #[cfg_attr(kani, kani::unwind(40))]
pub fn c04_table_struct_mutants() {
    let base = digests::<mu::b::M>();
    assert!(base.0 != type_digest::<mu::rn::M>(), "C04: one field renamed -> different type digest");
    assert!(base.0 != type_digest::<mu::sw::M>(), "C04: two fields swapped -> different type digest");
    assert!(base.0 != type_digest::<mu::ty::M>(), "C04: field type replaced by a same-size type (u32->i32) -> different type digest");
    assert!(base.0 != type_digest::<mu::tf::M>(), "C04: field type replaced by a same-size type (u32->f32) -> different type digest");
    assert!(base.0 != type_digest::<mu::zc::M>(), "C04: copy kind toggled -> different type digest");
    assert!(base.0 != type_digest::<mu::nm::N>(), "C04: type renamed -> different type digest");
    assert!(base.0 != type_digest::<mu::tu::M>(), "C04: named fields vs tuple struct -> different type digest");
    assert!(base.0 != type_digest::<mu::xf::M>(), "C04: extra field -> different type digest");
    assert!(type_digest::<mu::rn::M>() != type_digest::<mu::sw::M>(), "C04: mutants differ from each other");
    assert!(type_digest::<mu::ty::M>() != type_digest::<mu::tf::M>(), "C04: mutants differ from each other");
}
/// zero-copy memory layout: representation attributes, size, padding
#[cfg_attr(kani, kani::proof)] #[cfg_attr(kani, kani::unwind(40))]
pub fn c04_table_layout_mutants() {
    let z0 = digests::<mu::z0::Z>();
    let z8 = digests::<mu::z8::Z>();
    let z16 = digests::<mu::z16::Z>();
    let zs = digests::<mu::zs::Z>();
    assert!(ne(z0, z8), "C04: repr(align(8)) added -> different digests");
    assert!(ne(z0, z16) && ne(z8, z16), "C04: different repr(align) -> different digests");
    assert!(ne(z0, zs), "C04: padding moved -> different digests");
    assert!(z0.1 != z8.1 && z8.1 != z16.1, "C04: layout change is reflected in the alignment digest");
    // generic zero-copy with different argument: different size
    assert!(ne(digests::<ZGen<u32>>(), digests::<ZGen<u64>>()), "C04: generic argument of a zero-copy struct -> different digests");
    assert!(ne(digests::<ZeroS>(), digests::<ZTail>()), "C04: different zero-copy structs -> different digests");
}
/// generic arguments, const values and names, sequence kind, array length, tuple arity
#[cfg_attr(kani, kani::proof)] #[cfg_attr(kani, kani::unwind(40))]
pub fn c04_table_generic_mutants() {
    assert!(type_digest::<mu::g::G<u32>>() != type_digest::<mu::g::G<i32>>(), "C04: generic argument u32 vs i32");
    assert!(type_digest::<mu::g::G<u32>>() != type_digest::<mu::g::G<Vec<u32>>>(), "C04: generic argument u32 vs Vec<u32>");
    assert!(type_digest::<mu::g::G<Vec<u32>>>() != type_digest::<mu::g::G<Box<[u32]>>>(), "C04: generic argument Vec vs Box<[]>");
    assert!(type_digest::<mu::k::K<2>>() != type_digest::<mu::k::K<3>>(), "C04: const-generic value 2 vs 3");
    assert!(type_digest::<mu::k::K<2>>() != type_digest::<mu::kq::K<2>>(), "C04: const-generic name N vs Q");
    assert!(type_digest::<mu::kd::K<2>>() != type_digest::<mu::kd::K<3>>(), "C04: const-generic value 2 vs 3 (deep-copy struct)");
    assert!(type_digest::<mu::kd::K<2>>() != type_digest::<mu::kdq::K<2>>(), "C04: const-generic name N vs Q (deep-copy struct)");
    assert!(type_digest::<mu::ke::K<2>>() != type_digest::<mu::ke::K<3>>(), "C04: const-generic value 2 vs 3 (deep-copy enum)");
    assert!(type_digest::<mu::ke::K<2>>() != type_digest::<mu::keq::K<2>>(), "C04: const-generic name N vs Q (deep-copy enum)");
    assert!(type_digest::<mu::kz::K<2>>() != type_digest::<mu::kz::K<3>>(), "C04: const-generic value 2 vs 3 (zero-copy enum)");
    assert!(type_digest::<mu::kz::K<2>>() != type_digest::<mu::kzq::K<2>>(), "C04: const-generic name N vs Q (zero-copy enum)");
    assert!(type_digest::<Vec<u32>>() != type_digest::<Box<[u32]>>(), "C04: sequence kind Vec vs Box<[]>");
    assert!(type_digest::<Vec<u32>>() != type_digest::<Vec<i32>>(), "C04: element type");
    assert!(type_digest::<Vec<u32>>() != type_digest::<[u32; 2]>(), "C04: sequence kind Vec vs array");
    assert!(type_digest::<[u32; 2]>() != type_digest::<[u32; 3]>(), "C04: array length");
    assert!(type_digest::<(u32,)>() != type_digest::<(u32, u32)>(), "C04: tuple arity");
    assert!(type_digest::<(u32, u32)>() != type_digest::<[u32; 2]>(), "C04: tuple vs array");
    assert!(type_digest::<String>() != type_digest::<Box<str>>(), "C04: String vs Box<str>");
    assert!(type_digest::<String>() != type_digest::<Vec<u8>>(), "C04: String vs Vec<u8>");
    assert!(type_digest::<Option<u32>>() != type_digest::<Option<Option<u32>>>(), "C04: nesting depth");
    assert!(type_digest::<Option<u32>>() != type_digest::<core::ops::Bound<u32>>(), "C04: Option vs Bound");
    assert!(type_digest::<core::ops::Range<u32>>() != type_digest::<core::ops::RangeInclusive<u32>>(), "C04: range kinds");
    assert!(type_digest::<core::ops::ControlFlow<u8, u16>>() != type_digest::<core::ops::ControlFlow<u16, u8>>(), "C04: argument order");
    assert!(type_digest::<usize>() != type_digest::<u64>(), "C04: usize vs u64");
    assert!(type_digest::<core::marker::PhantomData<u32>>() != type_digest::<core::marker::PhantomData<i32>>(), "C04: phantom argument");
}
/// enum mutants
#[cfg_attr(kani, kani::proof)] #[cfg_attr(kani, kani::unwind(40))]
pub fn c04_table_enum_mutants() {
    let e0 = type_digest::<mu::e0::E>();
    assert!(e0 != type_digest::<mu::er::E>(), "C04: variant renamed");
    assert!(e0 != type_digest::<mu::eo::E>(), "C04: variants reordered");
    assert!(e0 != type_digest::<mu::et::E>(), "C04: variant payload type");
    assert!(e0 != type_digest::<mu::es::E>(), "C04: tuple variant vs struct variant");
    assert!(type_digest::<En<u8>>() != type_digest::<En<i8>>(), "C04: generic enum argument");
    assert!(type_digest::<E2>() != type_digest::<E1>(), "C04: different enums");
}
/// types documented as interchangeable on disk share both digests
#[cfg_attr(kani, kani::proof)] #[cfg_attr(kani, kani::unwind(40))]
pub fn c04_table_interchangeable() {
    let v = digests::<Vec<u32>>();
    assert!(digests::<&[u32]>() == v, "C04: &[T] shares both digests with Vec<T>");
    assert!(digests::<SerIter<'static, u32, core::slice::Iter<'static, u32>>>() == v, "C04: SerIter<T> shares both digests with Vec<T>");
    let z = digests::<Vec<ZeroS>>();
    assert!(digests::<&[ZeroS]>() == z, "C04: &[T] shares both digests with Vec<T> (zero-copy struct elements)");
    let d = digests::<Vec<Vec<u8>>>();
    assert!(digests::<&[Vec<u8>]>() == d, "C04: &[T] shares both digests with Vec<T> (deep elements)");
}

include!("c04_universe.rs");

// ---- (c) end to end: written as T, read as near-miss U --------------------------------------

impl Sym for mu::b::M { fn sym() -> Self { mu::b::M { a: any(), b: any() } } }
impl Sym for mu::zc::M { fn sym() -> Self { mu::zc::M { a: any(), b: any() } } }
impl Sym for mu::z0::Z { fn sym() -> Self { mu::z0::Z { a: any(), b: any() } } }
impl Sym for mu::e0::E { fn sym() -> Self { if any::<bool>() { mu::e0::E::A } else { mu::e0::E::B(any()) } } }

/// kind: 1 = must be a type-hash error, 2 = must be an alignment-hash error, 0 = either
pub fn cross<T: Sym + Serialize, U: Deserialize, const EPS: bool, const KIND: u8>() {
    let x: T = any();
    let mut s = Sink::<64>::new();
    let n = match x.serialize(&mut s) { Ok(n) => n, Err(_) => { assert!(false, "HARNESS: serializes"); 0 } };
    let mut al = Al::<64>::zero();
    al.0 = s.buf;
    let got: u8;
    if EPS {
        let r = U::deserialize_eps(&al.0[..n]);
        got = match &r { Ok(_) => 0, Err(DE::WrongTypeHash { .. }) => 1, Err(DE::WrongAlignHash { .. }) => 2, Err(_) => 3 };
        core::mem::forget(r);
    } else {
        let mut rd = Exact::new(&al.0[..n]);
        let r = U::deserialize_full(&mut rd);
        got = match &r { Ok(_) => 0, Err(DE::WrongTypeHash { .. }) => 1, Err(DE::WrongAlignHash { .. }) => 2, Err(_) => 3 };
        core::mem::forget(r);
    }
    assert!(got != 0, "C04: bytes written as T were accepted as a structurally different U");
    assert!(got == 1 || got == 2, "C04: the refusal is a type-hash or alignment-hash error");
    assert!(KIND == 0 || got == KIND, "C04: the expected one of the two hash errors is returned");
}
macro_rules! cr {
    ($($name:ident : $t:ty => $u:ty, $eps:literal, $kind:literal);* $(;)?) => {$(
        #[cfg_attr(kani, kani::proof)] #[cfg_attr(kani, kani::unwind(64))]
        #[cfg_attr(kani, kani::stub(core::str::from_utf8, crate::env::from_utf8_stub))]
        pub fn $name() { cross::<$t, $u, $eps, $kind>() }
    )*};
}
cr!(
    c04_cross_rename_eps: mu::b::M => mu::rn::M, true, 1; c04_cross_rename_full: mu::b::M => mu::rn::M, false, 1;
    c04_cross_swap_full: mu::b::M => mu::sw::M, false, 1; c04_cross_type_eps: mu::b::M => mu::ty::M, true, 1;
    c04_cross_copykind_eps: mu::b::M => mu::zc::M, true, 1; c04_cross_copykind_rev_full: mu::zc::M => mu::b::M, false, 1;
    c04_cross_align_eps: mu::z0::Z => mu::z8::Z, true, 2; c04_cross_align_full: mu::z0::Z => mu::z8::Z, false, 2;
    c04_cross_enum_order_full: mu::e0::E => mu::eo::E, false, 1; c04_cross_enum_rename_eps: mu::e0::E => mu::er::E, true, 1;
    c04_cross_u32_i32: u32 => i32, true, 1; c04_cross_u64_usize: u64 => usize, false, 1;
    c04_cross_arr_len: [u16; 2] => [u16; 3], true, 1; c04_cross_tuple_arr: (u16, u16) => [u16; 2], true, 1;
);

/// Reachability twin: the same type IS accepted.
#[cfg_attr(kani, kani::proof)] #[cfg_attr(kani, kani::unwind(64))]
#[cfg_attr(kani, kani::stub(core::str::from_utf8, crate::env::from_utf8_stub))]
pub fn c04_twin_reach() {
    let x: u32 = any();
    let mut s = Sink::<64>::new();
    let n = x.serialize(&mut s).unwrap();
    let mut al = Al::<64>::zero();
    al.0 = s.buf;
    let r = <u32>::deserialize_eps(&al.0[..n]);
    let ok = r.is_ok();
    core::mem::forget(r);
    assert!(!ok, "TWIN: must be violated (same type is accepted)");
}
