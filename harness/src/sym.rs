//! Symbolic-input shim.
//!
//! Under `cfg(kani)` every `any::<T>()` is a `kani::any()` of an integer
//! primitive (compound values are assembled here, so the order and width of
//! the solver variables is fixed by this file and not by Kani's `Arbitrary`
//! impls).  Under `cfg(not(kani))` the very same harness function is an
//! ordinary program: `any` pops the next recorded byte vector of a
//! counterexample (loaded by `load_replay`) — that is how every solver
//! counterexample is replayed against the real build before it is reported.

#[cfg(not(kani))]
mod native {
    use std::cell::RefCell;
    use std::collections::VecDeque;
    thread_local! {
        pub static VALS: RefCell<VecDeque<Vec<u8>>> = RefCell::new(VecDeque::new());
    }
    pub fn pop(n: usize) -> Vec<u8> {
        VALS.with(|v| {
            let mut v = v.borrow_mut();
            // A counterexample trace ends at the first violated check: symbolic
            // values requested after that point are unconstrained; use zeros.
            match v.front() {
                None => {
                    eprintln!("REPLAY-NOTE: value past the end of the recorded trace, using zeros");
                    vec![0u8; n]
                }
                // CBMC's formula slicer removes symbolic values that cannot influence the
                // failed check; they are then absent from the recorded list.  A width
                // mismatch means the requested value is such a removed one: it is
                // unconstrained, zeros are used and the recorded value stays for the
                // next request of its width.
                Some(x) if x.len() != n => {
                    eprintln!("REPLAY-NOTE: recorded {} bytes, harness wants {}: value not in the trace, using zeros", x.len(), n);
                    vec![0u8; n]
                }
                Some(_) => v.pop_front().unwrap(),
            }
        })
    }
}

/// Load the concrete values of a counterexample (native replay only).
#[cfg(not(kani))]
pub fn load_replay(vals: Vec<Vec<u8>>) {
    native::VALS.with(|v| *v.borrow_mut() = vals.into());
}

pub trait Sym: Sized {
    fn sym() -> Self;
}

macro_rules! prim {
    ($($t:ty),*) => {$(
        impl Sym for $t {
            #[inline(always)]
            fn sym() -> $t {
                #[cfg(kani)]
                { kani::any::<$t>() }
                #[cfg(not(kani))]
                { <$t>::from_ne_bytes(native::pop(core::mem::size_of::<$t>()).try_into().unwrap()) }
            }
        }
    )*};
}
prim!(u8, u16, u32, u64, u128, usize, i8, i16, i32, i64, i128, isize);

impl Sym for bool {
    #[inline(always)]
    fn sym() -> bool {
        let b: u8 = u8::sym();
        assume(b < 2);
        b == 1
    }
}
impl Sym for f32 {
    fn sym() -> f32 { f32::from_bits(u32::sym()) }
}
impl Sym for f64 {
    fn sym() -> f64 { f64::from_bits(u64::sym()) }
}
impl Sym for char {
    fn sym() -> char {
        let c: u32 = u32::sym();
        assume(c < 0xD800 || (c > 0xDFFF && c <= 0x10FFFF));
        unsafe { char::from_u32_unchecked(c) }
    }
}
impl Sym for () {
    fn sym() {}
}
impl<T> Sym for core::marker::PhantomData<T> {
    fn sym() -> Self { core::marker::PhantomData }
}
impl<T: Sym> Sym for Option<T> {
    fn sym() -> Self {
        if bool::sym() { Some(T::sym()) } else { None }
    }
}
macro_rules! arr {
    ($($n:literal => [$($i:tt)*]),*) => {$(
        impl<T: Sym> Sym for [T; $n] {
            #[inline(always)]
            #[allow(unused)]
            fn sym() -> Self { [$({ let _ = $i; T::sym() }),*] }
        }
    )*};
}
include!("sym_arr.rs");

macro_rules! nz {
    ($($t:ty => $b:ty),*) => {$(
        impl Sym for $t {
            fn sym() -> $t { let v: $b = <$b>::sym(); assume(v != 0); <$t>::new(v).unwrap() }
        }
    )*};
}
use core::num::*;
nz!(NonZeroU8 => u8, NonZeroU16 => u16, NonZeroU32 => u32, NonZeroU64 => u64, NonZeroU128 => u128, NonZeroUsize => usize,
    NonZeroI8 => i8, NonZeroI16 => i16, NonZeroI32 => i32, NonZeroI64 => i64, NonZeroI128 => i128, NonZeroIsize => isize);

#[inline(always)]
pub fn any<T: Sym>() -> T {
    T::sym()
}

/// `kani::assume` under Kani; in a native replay a violated assumption means
/// the recorded values do not belong to this harness.
#[inline(always)]
pub fn assume(c: bool) {
    #[cfg(kani)]
    kani::assume(c);
    #[cfg(not(kani))]
    if !c {
        eprintln!("REPLAY-ASSUME-VIOLATED");
        std::process::exit(3);
    }
}

/// Symbolic length in `0..=max`.
#[inline(always)]
pub fn len_upto(max: usize) -> usize {
    let n: usize = any();
    assume(n <= max);
    n
}

#[macro_export]
macro_rules! cover {
    ($c:expr, $m:literal) => {{
        #[cfg(kani)]
        kani::cover!($c, $m);
        #[cfg(not(kani))]
        { let _ = $c; }
    }};
}

/// Vec of symbolic elements with symbolic length ≤ MAX (capacity fixed so no
/// reallocation path is explored).
pub fn vec_upto<T: Sym, const MAX: usize>() -> Vec<T> {
    let n = len_upto(MAX);
    let mut v = Vec::with_capacity(MAX);
    let mut i = 0;
    while i < n {
        v.push(T::sym());
        i += 1;
    }
    v
}

/// String of ≤ MAX symbolic chars (all code points).
pub fn string_upto<const MAX: usize>() -> String {
    let n = len_upto(MAX);
    let mut s = String::with_capacity(4 * MAX);
    let mut i = 0;
    while i < n {
        s.push(char::sym());
        i += 1;
    }
    s
}

/// Vec of exactly N symbolic elements (concrete length: one harness instance per length).
pub fn vec_n<T: Sym>(n: usize) -> Vec<T> {
    let mut v = Vec::with_capacity(n);
    let mut i = 0;
    while i < n {
        v.push(T::sym());
        i += 1;
    }
    v
}

/// Symbolic char whose UTF-8 encoding is exactly `w` bytes long (w in 1..=4):
/// every code point of that width class.
pub fn char_w(w: usize) -> char {
    let c: u32 = u32::sym();
    match w {
        1 => assume(c < 0x80),
        2 => assume(c >= 0x80 && c < 0x800),
        3 => assume(c >= 0x800 && c < 0x10000 && !(c >= 0xD800 && c <= 0xDFFF)),
        _ => assume(c >= 0x10000 && c <= 0x10FFFF),
    }
    unsafe { char::from_u32_unchecked(c) }
}

/// String made of chars of the given UTF-8 width classes (0 = no char).
pub fn string_w(w0: usize, w1: usize) -> String {
    let mut s = String::with_capacity(8);
    if w0 > 0 {
        s.push(char_w(w0));
    }
    if w1 > 0 {
        s.push(char_w(w1));
    }
    s
}
