//! C06 — emitted bytes conform to format 1.1 and stay readable.
//! (1) ∀ value of each listed type: `serialize(x)` (real header + value) ==
//!     the bytes of the independent reference encoder `refenc` with the golden
//!     digests recorded from the pinned build (length + one symbolic index;
//!     struct padding inside zero-copy blocks is don't-care), and both
//!     deserializers read the reference bytes back to x.
//! (2) golden digests: the current TypeHash/AlignHash of every universe type
//!     and mutant equal the recorded ones (evaluation, no symbolic input).
//! (3) golden corpus: files written by the pinned build decode to the recorded
//!     values in both modes (evaluation on concrete input).
use crate::cases::*;
use crate::env::*;
use crate::golden::Golden;
use crate::refenc::{Ref, RefBuf};
use crate::rt::Case;
use crate::sym::{self, any, assume};
use epserde::deser::Deserialize;
use epserde::ser::Serialize;

pub fn conform<C: Case + Golden, const N: usize, const S: usize>()
where
    C::T: Serialize + Deserialize + Ref,
{
    let x = C::make(S);
    let mut a = Sink::<N>::new();
    let n = match x.serialize(&mut a) { Ok(n) => n, Err(_) => { assert!(false, "C06: serialization succeeds"); 0 } };
    let mut r = RefBuf::<N>::new();
    r.header(C::TH, C::AH, core::any::type_name::<C::T>());
    x.enc(&mut r);
    assert!(n == r.pos, "C06: stream length equals the reference encoder's");
    let k: usize = any();
    assume(k < n);
    if r.care[k] {
        crate::cover!(k >= 37, "a byte after the fixed header is compared");
        assert!(a.buf[k] == r.b[k], "C06: emitted byte differs from format 1.1 (reference encoder + golden digests)");
    }
    // the reference bytes are read back by the current deserializers
    let mut al = Al::<N>::zero();
    al.0 = r.b;
    let e = <C::T>::deserialize_eps(&al.0[..n]);
    match &e { Ok(e) => { assert!(C::same_eps(&x, e), "C06: reference bytes eps-deserialize to the value"); } Err(_) => { assert!(false, "C06: reference bytes are accepted (eps)"); } }
    core::mem::forget(e);
    let mut rd = Exact::new(&al.0[..n]);
    let f = <C::T>::deserialize_full(&mut rd);
    match &f { Ok(f) => { assert!(C::same(&x, f), "C06: reference bytes full-deserialize to the value"); } Err(_) => { assert!(false, "C06: reference bytes are accepted (full)"); } }
    core::mem::forget(f);
}

/// Bytes only (no read-back): for types whose stream exceeds 64 bytes.
pub fn conform_bytes<C: Case + Golden, const N: usize, const S: usize>()
where
    C::T: Serialize + Ref,
{
    let x = C::make(S);
    let mut a = Sink::<N>::new();
    let n = match x.serialize(&mut a) { Ok(n) => n, Err(_) => { assert!(false, "C06: serialization succeeds"); 0 } };
    let mut r = RefBuf::<N>::new();
    r.header(C::TH, C::AH, core::any::type_name::<C::T>());
    x.enc(&mut r);
    assert!(n == r.pos, "C06: stream length equals the reference encoder's");
    let k: usize = any();
    assume(k < n);
    if r.care[k] {
        crate::cover!(k >= 37, "a byte after the fixed header is compared");
        assert!(a.buf[k] == r.b[k], "C06: emitted byte differs from format 1.1 (reference encoder + golden digests)");
    }
}

include!("c06_inst.rs");
include!("c06_corpus.rs");

/// Reachability twin.
#[cfg_attr(kani, kani::proof)] #[cfg_attr(kani, kani::unwind(64))]
pub fn c06_twin_reach() {
    let x: u32 = any();
    let mut a = Sink::<64>::new();
    let n = x.serialize(&mut a).unwrap();
    let mut r = RefBuf::<64>::new();
    r.header(<U32 as Golden>::TH, <U32 as Golden>::AH, "u32");
    0u32.enc(&mut r);
    let k: usize = any();
    assume(k < n);
    assert!(a.buf[k] == r.b[k], "TWIN: must be violated (the value bytes differ)");
}
