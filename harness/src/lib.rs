//! Kani harnesses over the real code of vigna/epserde-rs (path dependency on
//! the repository's current working tree).  One module per property; every
//! harness is an ordinary `pub fn` so that `bin/check replay` can run it
//! natively on the values of a solver counterexample (see `sym`).
#![recursion_limit = "512"]
#![cfg_attr(kani, feature(core_io_borrowed_buf, read_buf, core_io, allocator_api))]
#![allow(dead_code, unused_imports, unused_variables, unused_mut, clippy::all)]

pub mod env;
pub mod sym;

pub mod universe;
pub mod rt;
pub mod cases;
pub mod mutants;
pub mod hashes;
pub mod corpus;
pub mod refenc;
pub mod golden;
include!("cases_list.rs");

pub mod inst;
pub mod c01;
pub mod c04;
pub mod c05;
/// seeded generated definitions (C05 thorough tier); empty unless $VH_GEN_FILE is set at build time
pub mod c05gen {
    include!(concat!(env!("OUT_DIR"), "/c05_gen.rs"));
}
pub mod c06;
pub mod c07;
pub mod fsenv;
pub mod c08;
pub mod c09;
pub mod c10;
pub mod c11;
pub mod c12;
pub mod c13;
pub mod c14;
pub mod c15;
pub mod c16;
pub mod c17;
pub mod c18;
pub mod c19;
pub mod selftest;
