//! C15 — variant tags: every tag the serializer writes maps back to its
//! variant with its payload; every other tag value is rejected with
//! `InvalidTag(t)` carrying exactly that value.  Tags are obtained by running
//! the real serializer on each variant inside the harness (not hard-coded).
use crate::cases::*;
use crate::env::*;
use crate::rt::Case;
use crate::sym::{self, any, assume};
use crate::universe::*;
use core::ops::{Bound, ControlFlow};
use epserde::deser::{DeserializeInner, Error as DE, SliceWithPos};
use epserde::ser::{SerializeInner, WriterWithPos};

/// First byte the real serializer emits for `v`.
fn tag8<T: SerializeInner>(v: &T) -> u8 {
    let mut s = Sink::<16>::new();
    let mut w = WriterWithPos::new(&mut s);
    let r = SerializeInner::_serialize_inner(v, &mut w);
    assert!(r.is_ok(), "HARNESS: variant serializes");
    s.buf[0]
}
/// First pointer-width word the real serializer emits for `v`.
fn tag64<T: SerializeInner, const N: usize>(v: &T) -> usize {
    let mut s = Sink::<N>::new();
    let mut w = WriterWithPos::new(&mut s);
    let r = SerializeInner::_serialize_inner(v, &mut w);
    assert!(r.is_ok(), "HARNESS: variant serializes");
    u64_at(&s.buf, 0) as usize
}

// ---- Option<u8>: all 256 tags x all payload bytes --------------------------------

fn option_u8<const EPS: bool>() {
    let b: [u8; 2] = any();
    let tn = tag8(&None::<u8>);
    let ts = tag8(&Some(b[1]));
    assert!(tn != ts, "C15: distinct variants are written with distinct tags");
    let mut sl = SliceWithPos::new(&b[..]);
    let r = if EPS { <Option<u8>>::_deserialize_eps_inner(&mut sl) } else { <Option<u8>>::_deserialize_full_inner(&mut sl) };
    match r {
        Ok(None) => { crate::cover!(true, "None"); assert!(b[0] == tn, "C15: a foreign tag was mapped to None"); }
        Ok(Some(x)) => { crate::cover!(true, "Some"); assert!(b[0] == ts && x == b[1], "C15: a foreign tag was mapped to Some / payload differs"); }
        Err(DE::InvalidTag(t)) => {
            crate::cover!(true, "InvalidTag");
            assert!(b[0] != tn && b[0] != ts, "C15: a tag written by a variant was rejected");
            assert!(t == b[0] as usize, "C15: InvalidTag carries exactly the offending tag value");
        }
        Err(_) => { assert!(false, "C15: only InvalidTag may be returned for a complete stream"); }
    }
}
#[cfg_attr(kani, kani::proof)] #[cfg_attr(kani, kani::unwind(4))]
pub fn c15_option_u8_full() { option_u8::<false>() }
#[cfg_attr(kani, kani::proof)] #[cfg_attr(kani, kani::unwind(4))]
pub fn c15_option_u8_eps() { option_u8::<true>() }

/// ε-copy of a stream that ends right after a foreign tag: must be the
/// invalid-tag error with that tag (not a read of a byte that is not there).
#[cfg_attr(kani, kani::proof)] #[cfg_attr(kani, kani::unwind(4))]
pub fn c15_option_u8_eps_tag_only() {
    let b: [u8; 1] = any();
    let tn = tag8(&None::<u8>);
    let ts = tag8(&Some(0u8));
    assume(b[0] != tn && b[0] != ts);
    let mut sl = SliceWithPos::new(&b[..]);
    let r = <Option<u8>>::_deserialize_eps_inner(&mut sl);
    match r {
        Err(DE::InvalidTag(t)) => { crate::cover!(true, "InvalidTag"); assert!(t == b[0] as usize, "C15: InvalidTag carries exactly the offending tag value"); }
        _ => { assert!(false, "C15: foreign tag at end of stream is rejected with InvalidTag"); }
    }
}

// ---- Option<Vec<u16>> in ε mode (payload = real serialization of a symbolic vector) ----

#[cfg_attr(kani, kani::proof)] #[cfg_attr(kani, kani::unwind(5))]
pub fn c15_option_vec_eps() {
    let v = sym::vec_upto::<u16, 2>();
    let mut s = Sink::<32>::new();
    let n;
    {
        let mut w = WriterWithPos::new(&mut s);
        let r = SerializeInner::_serialize_inner(&Some(v.clone()), &mut w);
        assert!(r.is_ok(), "HARNESS: serializes");
        n = 1 + 8 + 1 + 2 * v.len();
    }
    let ts = s.buf[0];
    let tn = tag8(&None::<Vec<u16>>);
    let t: u8 = any();
    let mut al = Al::<32>::zero();
    al.0 = s.buf;
    al.0[0] = t;
    let mut sl = SliceWithPos::new(&al.0[..n]);
    let r = <Option<Vec<u16>>>::_deserialize_eps_inner(&mut sl);
    match r {
        Ok(None) => { crate::cover!(true, "None"); assert!(t == tn, "C15: a foreign tag was mapped to None"); }
        Ok(Some(x)) => { crate::cover!(true, "Some"); assert!(t == ts && eqs(x, &v), "C15: a foreign tag was mapped to Some / payload differs"); }
        Err(DE::InvalidTag(e)) => { crate::cover!(true, "InvalidTag"); assert!(t != tn && t != ts && e == t as usize, "C15: InvalidTag iff foreign, carrying the tag"); }
        Err(_) => { assert!(false, "C15: only InvalidTag may be returned for a complete stream"); }
    }
}

// ---- Bound<u32> -------------------------------------------------------------------

fn bound_u32<const EPS: bool>() {
    let b: [u8; 5] = any();
    let p = u32::from_ne_bytes([b[1], b[2], b[3], b[4]]);
    let tu = tag8(&Bound::<u32>::Unbounded);
    let ti = tag8(&Bound::Included(p));
    let te = tag8(&Bound::Excluded(p));
    assert!(tu != ti && tu != te && ti != te, "C15: distinct variants are written with distinct tags");
    let mut sl = SliceWithPos::new(&b[..]);
    let r = if EPS { <Bound<u32>>::_deserialize_eps_inner(&mut sl) } else { <Bound<u32>>::_deserialize_full_inner(&mut sl) };
    match r {
        Ok(Bound::Unbounded) => { crate::cover!(true, "Unbounded"); assert!(b[0] == tu, "C15: a foreign tag was mapped to Unbounded"); }
        Ok(Bound::Included(x)) => { crate::cover!(true, "Included"); assert!(b[0] == ti && x == p, "C15: a foreign tag was mapped to Included / payload differs"); }
        Ok(Bound::Excluded(x)) => { crate::cover!(true, "Excluded"); assert!(b[0] == te && x == p, "C15: a foreign tag was mapped to Excluded / payload differs"); }
        Err(DE::InvalidTag(t)) => {
            crate::cover!(true, "InvalidTag");
            assert!(b[0] != tu && b[0] != ti && b[0] != te, "C15: a tag written by a variant was rejected");
            assert!(t == b[0] as usize, "C15: InvalidTag carries exactly the offending tag value");
        }
        Err(_) => { assert!(false, "C15: only InvalidTag may be returned for a complete stream"); }
    }
}
#[cfg_attr(kani, kani::proof)] #[cfg_attr(kani, kani::unwind(4))]
pub fn c15_bound_u32_full() { bound_u32::<false>() }
#[cfg_attr(kani, kani::proof)] #[cfg_attr(kani, kani::unwind(4))]
pub fn c15_bound_u32_eps() { bound_u32::<true>() }

// ---- ControlFlow<u8, u16> --------------------------------------------------------------

fn cf_u8_u16<const EPS: bool>() {
    let b: [u8; 3] = any();
    let pb = b[1];
    let pc = u16::from_ne_bytes([b[1], b[2]]);
    let tb = tag8(&ControlFlow::<u8, u16>::Break(pb));
    let tc = tag8(&ControlFlow::<u8, u16>::Continue(pc));
    assert!(tb != tc, "C15: distinct variants are written with distinct tags");
    let mut sl = SliceWithPos::new(&b[..]);
    let r = if EPS { <ControlFlow<u8, u16>>::_deserialize_eps_inner(&mut sl) } else { <ControlFlow<u8, u16>>::_deserialize_full_inner(&mut sl) };
    match r {
        Ok(ControlFlow::Break(x)) => { crate::cover!(true, "Break"); assert!(b[0] == tb && x == pb, "C15: a foreign tag was mapped to Break / payload differs"); }
        Ok(ControlFlow::Continue(x)) => { crate::cover!(true, "Continue"); assert!(b[0] == tc && x == pc, "C15: a foreign tag was mapped to Continue / payload differs"); }
        Err(DE::InvalidTag(t)) => {
            crate::cover!(true, "InvalidTag");
            assert!(b[0] != tb && b[0] != tc, "C15: a tag written by a variant was rejected");
            assert!(t == b[0] as usize, "C15: InvalidTag carries exactly the offending tag value");
        }
        Err(_) => { assert!(false, "C15: only InvalidTag may be returned for a complete stream"); }
    }
}
#[cfg_attr(kani, kani::proof)] #[cfg_attr(kani, kani::unwind(4))]
pub fn c15_controlflow_full() { cf_u8_u16::<false>() }
#[cfg_attr(kani, kani::proof)] #[cfg_attr(kani, kani::unwind(4))]
pub fn c15_controlflow_eps() { cf_u8_u16::<true>() }

// ---- derived enums: the tag is a symbolic usize (all 2^64 values) ------------------------

fn en_u8_tags<const EPS: bool>() {
    let tag: usize = any();
    let p: [u8; 2] = any();
    let ta = tag64::<_, 16>(&En::<u8>::A);
    let tb = tag64::<_, 16>(&En::<u8>::B(p[0]));
    let tc = tag64::<_, 16>(&En::<u8>::C { x: p[0], y: p[1] });
    assert!(ta != tb && ta != tc && tb != tc, "C15: distinct variants are written with distinct tags");
    let t = tag.to_ne_bytes();
    let buf = [t[0], t[1], t[2], t[3], t[4], t[5], t[6], t[7], p[0], p[1]];
    let mut sl = SliceWithPos::new(&buf[..]);
    let r = if EPS { <En<u8>>::_deserialize_eps_inner(&mut sl) } else { <En<u8>>::_deserialize_full_inner(&mut sl) };
    match r {
        Ok(En::A) => { crate::cover!(true, "A"); assert!(tag == ta, "C15: a foreign tag was mapped to A"); }
        Ok(En::B(b)) => { crate::cover!(true, "B"); assert!(tag == tb && b == p[0], "C15: a foreign tag was mapped to B / payload differs"); }
        Ok(En::C { x, y }) => { crate::cover!(true, "C"); assert!(tag == tc && x == p[0] && y == p[1], "C15: a foreign tag was mapped to C / payload differs"); }
        Err(DE::InvalidTag(t)) => {
            crate::cover!(true, "InvalidTag");
            assert!(tag != ta && tag != tb && tag != tc, "C15: a tag written by a variant was rejected");
            assert!(t == tag, "C15: InvalidTag carries exactly the offending tag value");
        }
        Err(_) => { assert!(false, "C15: only InvalidTag may be returned for a complete stream"); }
    }
}
#[cfg_attr(kani, kani::proof)] #[cfg_attr(kani, kani::unwind(4))]
pub fn c15_en_u8_full() { en_u8_tags::<false>() }
#[cfg_attr(kani, kani::proof)] #[cfg_attr(kani, kani::unwind(4))]
pub fn c15_en_u8_eps() { en_u8_tags::<true>() }

fn e1_tags<const EPS: bool>() {
    let tag: usize = any();
    let p: [u8; 2] = any();
    let v = u16::from_ne_bytes(p);
    let t0 = tag64::<_, 16>(&E1::Only(v));
    let t = tag.to_ne_bytes();
    let buf = [t[0], t[1], t[2], t[3], t[4], t[5], t[6], t[7], p[0], p[1]];
    let mut sl = SliceWithPos::new(&buf[..]);
    let r = if EPS { <E1>::_deserialize_eps_inner(&mut sl) } else { <E1>::_deserialize_full_inner(&mut sl) };
    match r {
        Ok(E1::Only(x)) => { crate::cover!(true, "Only"); assert!(tag == t0 && x == v, "C15: a foreign tag was mapped to the only variant"); }
        Err(DE::InvalidTag(e)) => { crate::cover!(true, "InvalidTag"); assert!(tag != t0 && e == tag, "C15: InvalidTag iff foreign, carrying the tag"); }
        Err(_) => { assert!(false, "C15: only InvalidTag may be returned for a complete stream"); }
    }
}
#[cfg_attr(kani, kani::proof)] #[cfg_attr(kani, kani::unwind(4))]
pub fn c15_e1_full() { e1_tags::<false>() }
#[cfg_attr(kani, kani::proof)] #[cfg_attr(kani, kani::unwind(4))]
pub fn c15_e1_eps() { e1_tags::<true>() }

fn e2_tags<const EPS: bool>() {
    let tag: usize = any();
    let tn = tag64::<_, 16>(&E2::No);
    let ty = tag64::<_, 16>(&E2::Yes);
    assert!(tn != ty, "C15: distinct variants are written with distinct tags");
    let buf = tag.to_ne_bytes();
    let mut sl = SliceWithPos::new(&buf[..]);
    let r = if EPS { <E2>::_deserialize_eps_inner(&mut sl) } else { <E2>::_deserialize_full_inner(&mut sl) };
    match r {
        Ok(E2::No) => { crate::cover!(true, "No"); assert!(tag == tn, "C15: a foreign tag was mapped to No"); }
        Ok(E2::Yes) => { crate::cover!(true, "Yes"); assert!(tag == ty, "C15: a foreign tag was mapped to Yes"); }
        Err(DE::InvalidTag(e)) => { crate::cover!(true, "InvalidTag"); assert!(tag != tn && tag != ty && e == tag, "C15: InvalidTag iff foreign, carrying the tag"); }
        Err(_) => { assert!(false, "C15: only InvalidTag may be returned for a complete stream"); }
    }
}
#[cfg_attr(kani, kani::proof)] #[cfg_attr(kani, kani::unwind(4))]
pub fn c15_e2_full() { e2_tags::<false>() }
#[cfg_attr(kani, kani::proof)] #[cfg_attr(kani, kani::unwind(4))]
pub fn c15_e2_eps() { e2_tags::<true>() }

/// E5 (unit / tuple / struct variants, generic with default): the payload is
/// the real serialization of a symbolic value; the tag word is replaced by
/// either the written tag or any value no variant writes (>= 5 variants).
fn e5_tags<const EPS: bool>() {
    let x = <E5C as Case>::make(0);
    let mut s = Sink::<48>::new();
    let n;
    {
        let mut w = WriterWithPos::new(&mut s);
        let r = SerializeInner::_serialize_inner(&x, &mut w);
        assert!(r.is_ok(), "HARNESS: serializes");
        n = epserde::ser::WriteWithPos::pos(&w);
    }
    let orig = u64_at(&s.buf, 0) as usize;
    let t0 = tag64::<_, 16>(&E5::<Vec<u8>>::A);
    let t1 = tag64::<_, 16>(&E5::<Vec<u8>>::B(0));
    let t2 = tag64::<_, 32>(&E5::<Vec<u8>>::C(0, Vec::new()));
    let t3 = tag64::<_, 32>(&E5::<Vec<u8>>::D { a: 0, b: Vec::new() });
    let t4 = tag64::<_, 16>(&E5::<Vec<u8>>::E);
    let tag: usize = any();
    let foreign = tag != t0 && tag != t1 && tag != t2 && tag != t3 && tag != t4;
    assume(tag == orig || foreign);
    let tb = tag.to_ne_bytes();
    let mut al = Al::<48>::zero();
    al.0 = s.buf;
    al.0[0] = tb[0]; al.0[1] = tb[1]; al.0[2] = tb[2]; al.0[3] = tb[3];
    al.0[4] = tb[4]; al.0[5] = tb[5]; al.0[6] = tb[6]; al.0[7] = tb[7];
    let mut sl = SliceWithPos::new(&al.0[..n]);
    // (two separate matches so that each instance only carries its own cover witnesses)
    let verdict: (bool, Option<usize>, bool) = if EPS {
        match <E5<Vec<u8>>>::_deserialize_eps_inner(&mut sl) {
            Ok(e) => (true, None, <E5C as Case>::same_eps(&x, &e)),
            Err(DE::InvalidTag(t)) => (false, Some(t), false),
            Err(_) => (false, None, false),
        }
    } else {
        match <E5<Vec<u8>>>::_deserialize_full_inner(&mut sl) {
            Ok(e) => (true, None, <E5C as Case>::same(&x, &e)),
            Err(DE::InvalidTag(t)) => (false, Some(t), false),
            Err(_) => (false, None, false),
        }
    };
    match verdict {
        (true, _, same) => { crate::cover!(true, "Ok"); assert!(tag == orig && same, "C15: a foreign tag was mapped to a variant / payload differs"); }
        (false, Some(t), _) => { crate::cover!(true, "InvalidTag"); assert!(foreign && t == tag, "C15: InvalidTag iff foreign, carrying the tag"); }
        (false, None, _) => { assert!(false, "C15: only InvalidTag may be returned for a complete stream"); }
    }
}
#[cfg_attr(kani, kani::proof)] #[cfg_attr(kani, kani::unwind(5))]
pub fn c15_e5_full() { e5_tags::<false>() }
#[cfg_attr(kani, kani::proof)] #[cfg_attr(kani, kani::unwind(5))]
pub fn c15_e5_eps() { e5_tags::<true>() }

/// Reachability twin.
#[cfg_attr(kani, kani::proof)] #[cfg_attr(kani, kani::unwind(4))]
pub fn c15_twin_reach() {
    let b: [u8; 2] = any();
    let mut sl = SliceWithPos::new(&b[..]);
    let r = <Option<u8>>::_deserialize_full_inner(&mut sl);
    assert!(r.is_ok(), "TWIN: must be violated (foreign tags exist)");
}

// ---- a foreign tag is rejected *as such*, whatever follows it ---------------------------
//
// "Every tag value that no variant writes is rejected with an invalid-tag error carrying
// exactly that tag value": the verdict may not depend on the bytes after the tag.  The
// stream here consists of the tag alone (one byte; one pointer-width word for derived
// enums), so a reader that touches the payload before it has validated the tag returns a
// read error or panics instead (seeded change C15c).  Both modes; the full-copy reader
// runs over `SliceWithPos` (a `ReadNoStd`) and over the exact `ReaderWithPos`.
fn tag_only8<T: DeserializeInner, const EPS: bool>(valid: &[u8]) {
    let b: [u8; 1] = any();
    let mut i = 0;
    while i < valid.len() { assume(b[0] != valid[i]); i += 1; }
    let mut sl = SliceWithPos::new(&b[..]);
    let r = if EPS { T::_deserialize_eps_inner(&mut sl).map(|x| { core::mem::forget(x); }) } else { T::_deserialize_full_inner(&mut sl).map(|x| { core::mem::forget(x); }) };
    match r {
        Err(DE::InvalidTag(t)) => { crate::cover!(true, "InvalidTag"); assert!(t == b[0] as usize, "C15: InvalidTag carries exactly the offending tag value"); }
        Ok(()) => { assert!(false, "C15: a foreign tag was mapped to a variant"); }
        Err(e) => { core::mem::forget(e); assert!(false, "C15: a foreign tag at the end of the stream is rejected with InvalidTag (the tag is validated before the payload is touched)"); }
    }
}
fn tag_only64<T: DeserializeInner, const EPS: bool>(nvariants: usize) {
    let t: usize = any();
    assume(t >= nvariants);
    let b = t.to_ne_bytes();
    let mut al = Al::<16>::zero();
    let mut i = 0;
    while i < 8 { al.0[i] = b[i]; i += 1; }
    let mut sl = SliceWithPos::new(&al.0[..8]);
    let r = if EPS { T::_deserialize_eps_inner(&mut sl).map(|x| { core::mem::forget(x); }) } else { T::_deserialize_full_inner(&mut sl).map(|x| { core::mem::forget(x); }) };
    match r {
        Err(DE::InvalidTag(e)) => { crate::cover!(true, "InvalidTag"); assert!(e == t, "C15: InvalidTag carries exactly the offending tag value"); }
        Ok(()) => { assert!(false, "C15: a foreign tag was mapped to a variant"); }
        Err(e) => { core::mem::forget(e); assert!(false, "C15: a foreign tag at the end of the stream is rejected with InvalidTag (the tag is validated before the payload is touched)"); }
    }
}
macro_rules! to8 {
    ($($name:ident: $t:ty, $eps:literal, [$($v:expr),*]);* $(;)?) => {$(
        #[cfg_attr(kani, kani::proof)] #[cfg_attr(kani, kani::unwind(5))]
        pub fn $name() { let valid = [$(tag8(&$v)),*]; tag_only8::<$t, $eps>(&valid) }
    )*};
}
to8!(
    c15_tagonly_option_u32_full: Option<u32>, false, [None::<u32>, Some(0u32)];
    c15_tagonly_option_u32_eps: Option<u32>, true, [None::<u32>, Some(0u32)];
    c15_tagonly_bound_u32_full: Bound<u32>, false, [Bound::<u32>::Unbounded, Bound::Included(0u32), Bound::Excluded(0u32)];
    c15_tagonly_bound_u32_eps: Bound<u32>, true, [Bound::<u32>::Unbounded, Bound::Included(0u32), Bound::Excluded(0u32)];
    c15_tagonly_bound_vec_eps: Bound<Vec<u16>>, true, [Bound::<Vec<u16>>::Unbounded, Bound::Included(Vec::<u16>::new()), Bound::Excluded(Vec::<u16>::new())];
    c15_tagonly_cf_full: ControlFlow<u8, u16>, false, [ControlFlow::<u8, u16>::Break(0), ControlFlow::<u8, u16>::Continue(0)];
    c15_tagonly_cf_eps: ControlFlow<u8, u16>, true, [ControlFlow::<u8, u16>::Break(0), ControlFlow::<u8, u16>::Continue(0)];
);
#[cfg_attr(kani, kani::proof)] #[cfg_attr(kani, kani::unwind(10))]
pub fn c15_tagonly_en_u8_full() { tag_only64::<En<u8>, false>(3) }
#[cfg_attr(kani, kani::proof)] #[cfg_attr(kani, kani::unwind(10))]
pub fn c15_tagonly_en_u8_eps() { tag_only64::<En<u8>, true>(3) }
#[cfg_attr(kani, kani::proof)] #[cfg_attr(kani, kani::unwind(10))]
pub fn c15_tagonly_e1_full() { tag_only64::<E1, false>(1) }
#[cfg_attr(kani, kani::proof)] #[cfg_attr(kani, kani::unwind(10))]
pub fn c15_tagonly_e2_eps() { tag_only64::<E2, true>(2) }
