//! C07 — padding formula, alignment units, byte counts.
use crate::env::*;
use crate::sym::{self, any, assume};
use epserde::prelude::*;

/// (a) `pad_align_to(v, 2^e)` for every v and every power of two:
/// result is the smallest p with (v + p) % unit == 0.
#[cfg_attr(kani, kani::proof)]
pub fn c07_pad_formula() {
    let v: usize = any();
    let e: u32 = any();
    assume(e < 64);
    let unit: usize = 1usize << e;
    let p = epserde::pad_align_to(v, unit);
    assert!(p < unit, "C07: padding is smaller than the unit");
    assert!(v.wrapping_add(p) & (unit - 1) == 0, "C07: padded offset is a multiple of the unit");
    crate::cover!(p == 0, "already aligned");
    crate::cover!(p == unit - 1 && e == 63, "largest gap");
    // minimality, stated directly: no smaller gap reaches a multiple
    let q: usize = any();
    assume(q < p);
    assert!(v.wrapping_add(q) & (unit - 1) != 0, "C07: no smaller gap reaches a multiple");
}

/// Reachability twin: must FAIL (vacuity witness for this module).
#[cfg_attr(kani, kani::proof)]
pub fn c07_twin_reach() {
    let v: usize = any();
    let p = epserde::pad_align_to(v, 8);
    assert!(p != 5, "TWIN: must be violated");
}
