//! C07 — padding formula, alignment units, byte counts.
use crate::env::*;
use crate::sym::{self, any, assume};
use epserde::prelude::*;

/// (a) `pad_align_to(v, 2^e)` for every v and every power of two:
/// result is the smallest p with (v + p) % unit == 0.
#[cfg_attr(kani, kani::proof)]
pub fn c07_pad_formula() {
    let v: usize = any();
    let e: u32 = any();
    assume(e < 64);
    let unit: usize = 1usize << e;
    let p = epserde::pad_align_to(v, unit);
    assert!(p < unit, "C07: padding is smaller than the unit");
    assert!(v.wrapping_add(p) & (unit - 1) == 0, "C07: padded offset is a multiple of the unit");
    crate::cover!(p == 0, "already aligned");
    crate::cover!(p == unit - 1 && e == 63, "largest gap");
    // minimality, stated directly: no smaller gap reaches a multiple
    let q: usize = any();
    assume(q < p);
    assert!(v.wrapping_add(q) & (unit - 1) != 0, "C07: no smaller gap reaches a multiple");
}

/// Reachability twin: must FAIL (vacuity witness for this module).
#[cfg_attr(kani, kani::proof)]
pub fn c07_twin_reach() {
    let v: usize = any();
    let p = epserde::pad_align_to(v, 8);
    assert!(p != 5, "TWIN: must be violated");
}

use crate::universe::*;
use core::marker::PhantomData;
use core::mem::align_of;

fn unit_ok<T: MaxSizeOf>() -> usize {
    let u = T::max_size_of();
    assert!(u != 0 && u & (u - 1) == 0, "C07: alignment unit is a power of two");
    assert!(u >= align_of::<T>(), "C07: unit is no smaller than the native alignment");
    u
}

/// (b) units of every zero-copy type of the universe: power of two, >= native
/// alignment, >= the unit of every field (concrete evaluation, no symbolic input).
#[cfg_attr(kani, kani::proof)]
#[cfg_attr(kani, kani::unwind(4))]
pub fn c07_units() {
    // primitives and standard types
    unit_ok::<u8>(); unit_ok::<u16>(); unit_ok::<u32>(); unit_ok::<u64>(); unit_ok::<u128>(); unit_ok::<usize>();
    unit_ok::<i8>(); unit_ok::<i16>(); unit_ok::<i32>(); unit_ok::<i64>(); unit_ok::<i128>(); unit_ok::<isize>();
    unit_ok::<f32>(); unit_ok::<f64>(); unit_ok::<bool>(); unit_ok::<char>(); unit_ok::<()>();
    unit_ok::<PhantomData<u32>>(); unit_ok::<core::ops::RangeFull>();
    unit_ok::<core::num::NonZeroU8>(); unit_ok::<core::num::NonZeroU64>(); unit_ok::<core::num::NonZeroI128>();
    unit_ok::<core::ops::RangeTo<u32>>(); unit_ok::<core::ops::RangeToInclusive<u8>>();
    // arrays and tuples take the unit of their element
    assert!(unit_ok::<[u32; 3]>() >= unit_ok::<u32>(), "C07: array unit >= element unit");
    assert!(unit_ok::<[(); 2]>() >= unit_ok::<()>(), "C07: array unit >= element unit");
    assert!(unit_ok::<[ZeroS; 2]>() >= unit_ok::<ZeroS>(), "C07: array unit >= element unit");
    assert!(unit_ok::<(u16, u16)>() >= unit_ok::<u16>(), "C07: tuple unit >= field unit");
    assert!(unit_ok::<(u64, u64, u64)>() >= unit_ok::<u64>(), "C07: tuple unit >= field unit");
    assert!(unit_ok::<((),)>() >= unit_ok::<()>(), "C07: tuple unit >= field unit");
    // derived zero-copy types
    let z = unit_ok::<ZeroS>();
    assert!(z >= unit_ok::<u8>() && z >= unit_ok::<u32>(), "C07: struct unit >= every field's unit");
    let t = unit_ok::<ZTail>();
    assert!(t >= unit_ok::<u32>(), "C07: struct unit >= every field's unit");
    assert!(unit_ok::<ZAl32>() >= 32, "C07: repr(align(32)) is honoured by the unit");
    assert!(unit_ok::<ZGen<u64>>() >= unit_ok::<u64>(), "C07: generic struct unit >= field unit");
    assert!(unit_ok::<ZGen<u128>>() >= unit_ok::<u128>(), "C07: generic struct unit >= field unit");
    let n = unit_ok::<ZNest>();
    assert!(n >= unit_ok::<ZeroS>() && n >= unit_ok::<[u16; 3]>(), "C07: nested struct unit >= every field's unit");
    unit_ok::<ZUnit>();
    assert!(unit_ok::<ZAl4>() >= 4, "C07: repr(align(4)) zero-sized struct");
    assert!(unit_ok::<ZConst<3>>() >= unit_ok::<u16>(), "C07: tuple struct unit >= field unit");
    let e = unit_ok::<ZE>();
    assert!(e >= unit_ok::<u64>() && e >= unit_ok::<i32>(), "C07: enum unit >= every variant field's unit");
}
