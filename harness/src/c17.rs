//! C17 — a type wrongly declared zero-copy can never be serialized as raw
//! memory.  Always-on run-time layer: a hand-written impostor (declared
//! `Copy = Zero`, but `IS_ZERO_COPY = false`, as a derive on a struct with a
//! non-zero-copy field computes) pushed through every raw-memory writer of the
//! crate.  Expected: the *only* failed check is the panic inside
//! `check_zero_copy`; the tripwire writer and the end of the harness are
//! unreachable (no byte written, no normal return).  The compile-time layer is
//! in /verif/probes/c17 (see plan.py).
use crate::env::*;
use crate::sym::{self, any, assume};
use epserde::prelude::*;
use epserde::ser::{SerializeInner, WriteWithNames, WriterWithPos};

/// Holds a heap handle; declared zero-copy by hand.
#[derive(Clone, Copy)]
pub struct Impostor(pub u32, pub &'static [u8]);
impl CopyType for Impostor { type Copy = Zero; }
impl MaxSizeOf for Impostor { fn max_size_of() -> usize { 8 } }
impl TypeHash for Impostor { fn type_hash(_h: &mut impl core::hash::Hasher) {} }
impl AlignHash for Impostor { fn align_hash(_h: &mut impl core::hash::Hasher, _o: &mut usize) {} }
impl SerializeInner for Impostor {
    type SerType = Self;
    const IS_ZERO_COPY: bool = false;
    const ZERO_COPY_MISMATCH: bool = false;
    fn _serialize_inner(&self, backend: &mut impl WriteWithNames) -> epserde::ser::Result<()> {
        epserde::ser::helpers::serialize_zero(backend, self)
    }
}
static HEAP: [u8; 2] = [1, 2];
fn imp() -> Impostor { Impostor(any(), &HEAP) }

const END: &str = "C17: serialization of a wrongly declared zero-copy type returned instead of panicking";

#[cfg_attr(kani, kani::proof)] #[cfg_attr(kani, kani::unwind(5))]
pub fn c17_value() {
    let x = imp();
    let mut t = Tripwire;
    let mut w = WriterWithPos::new(&mut t);
    let _ = SerializeInner::_serialize_inner(&x, &mut w);
    assert!(false, "C17: serialization of a wrongly declared zero-copy type returned instead of panicking");
}
#[cfg_attr(kani, kani::proof)] #[cfg_attr(kani, kani::unwind(5))]
pub fn c17_slice_helper() {
    let len: usize = any();
    assume(len <= 2);
    let arr = [imp(), imp()];
    let mut t = Tripwire;
    let mut w = WriterWithPos::new(&mut t);
    let _ = epserde::ser::helpers::serialize_slice_zero(&mut w, &arr[..len]);
    assert!(false, "C17: serialization of a wrongly declared zero-copy type returned instead of panicking");
}
#[cfg_attr(kani, kani::proof)] #[cfg_attr(kani, kani::unwind(5))]
pub fn c17_vec() {
    let len: usize = any();
    assume(len <= 2);
    let mut v: Vec<Impostor> = Vec::with_capacity(2);
    if len >= 1 { v.push(imp()); }
    if len >= 2 { v.push(imp()); }
    let mut t = Tripwire;
    let mut w = WriterWithPos::new(&mut t);
    let _ = SerializeInner::_serialize_inner(&v, &mut w);
    core::mem::forget(v);
    assert!(false, "C17: serialization of a wrongly declared zero-copy type returned instead of panicking");
}
#[cfg_attr(kani, kani::proof)] #[cfg_attr(kani, kani::unwind(5))]
pub fn c17_boxed_slice() {
    let v: Box<[Impostor]> = vec![imp()].into_boxed_slice();
    let mut t = Tripwire;
    let mut w = WriterWithPos::new(&mut t);
    let _ = SerializeInner::_serialize_inner(&v, &mut w);
    core::mem::forget(v);
    assert!(false, "C17: serialization of a wrongly declared zero-copy type returned instead of panicking");
}
#[cfg_attr(kani, kani::proof)] #[cfg_attr(kani, kani::unwind(5))]
pub fn c17_array() {
    let a: [Impostor; 2] = [imp(), imp()];
    let mut t = Tripwire;
    let mut w = WriterWithPos::new(&mut t);
    let _ = SerializeInner::_serialize_inner(&a, &mut w);
    assert!(false, "C17: serialization of a wrongly declared zero-copy type returned instead of panicking");
}
#[cfg_attr(kani, kani::proof)] #[cfg_attr(kani, kani::unwind(5))]
pub fn c17_slice_ref() {
    let a: [Impostor; 2] = [imp(), imp()];
    let s: &[Impostor] = &a[..];
    let mut t = Tripwire;
    let mut w = WriterWithPos::new(&mut t);
    let _ = SerializeInner::_serialize_inner(&s, &mut w);
    assert!(false, "C17: serialization of a wrongly declared zero-copy type returned instead of panicking");
}
#[cfg_attr(kani, kani::proof)] #[cfg_attr(kani, kani::unwind(5))]
pub fn c17_seriter() {
    let a: [Impostor; 2] = [imp(), imp()];
    let it = SerIter::new(a.iter());
    let mut t = Tripwire;
    let mut w = WriterWithPos::new(&mut t);
    let _ = SerializeInner::_serialize_inner(&it, &mut w);
    assert!(false, "C17: serialization of a wrongly declared zero-copy type returned instead of panicking");
}
/// Top-level entry point: not even the header may be followed by value bytes;
/// here the sink accepts the header (44 bytes for this name) and trips afterwards.
pub struct TripAfter { pub n: usize, pub limit: usize }
impl epserde::ser::WriteNoStd for TripAfter {
    fn write_all(&mut self, b: &[u8]) -> epserde::ser::Result<()> {
        self.n += b.len();
        Ok(())
    }
    fn flush(&mut self) -> epserde::ser::Result<()> { Ok(()) }
}
#[cfg_attr(kani, kani::proof)] #[cfg_attr(kani, kani::unwind(40))]
pub fn c17_toplevel() {
    let x = imp();
    let mut t = TripAfter { n: 0, limit: 0 };
    let r = epserde::ser::Serialize::serialize(&x, &mut t);
    core::mem::forget(r);
    assert!(false, "C17: serialization of a wrongly declared zero-copy type returned instead of panicking");
}

/// Reachability twin: a *correctly* declared type does reach the writer.
#[cfg_attr(kani, kani::proof)] #[cfg_attr(kani, kani::unwind(5))]
pub fn c17_twin_reach() {
    let x: (u16, u16) = (any(), any());
    let mut t = Tripwire;
    let mut w = WriterWithPos::new(&mut t);
    let _ = SerializeInner::_serialize_inner(&x, &mut w);
}
