// GENERATED: C14 (A') call-indexed failure instances
fc!(
    c14_call_vecvec_j0: VecVecU16, 48, 5, 0 @ 5;
    c14_call_vecvec_j1: VecVecU16, 48, 5, 1 @ 5;
    c14_call_vecvec_j2: VecVecU16, 48, 5, 2 @ 5;
    c14_call_vecvec_j3: VecVecU16, 48, 5, 3 @ 5;
    c14_call_vecvec_j4: VecVecU16, 48, 5, 4 @ 5;
    c14_call_vecvec_j5: VecVecU16, 48, 5, 5 @ 5;
    c14_call_vecvec_j6: VecVecU16, 48, 5, 6 @ 5;
    c14_call_vecvec_j7: VecVecU16, 48, 5, 7 @ 5;
    c14_call_vecvec_j8: VecVecU16, 48, 5, 8 @ 5;
    c14_call_vecvec_j9: VecVecU16, 48, 5, 9 @ 5;
    c14_call_vecvec_j10: VecVecU16, 48, 5, 10 @ 5;
    c14_call_arrvec_j0: ArrVecx2, 48, 1, 0 @ 5;
    c14_call_arrvec_j1: ArrVecx2, 48, 1, 1 @ 5;
    c14_call_arrvec_j2: ArrVecx2, 48, 1, 2 @ 5;
    c14_call_arrvec_j3: ArrVecx2, 48, 1, 3 @ 5;
    c14_call_arrvec_j4: ArrVecx2, 48, 1, 4 @ 5;
    c14_call_arrvec_j5: ArrVecx2, 48, 1, 5 @ 5;
    c14_call_arrvec_j6: ArrVecx2, 48, 1, 6 @ 5;
    c14_call_arrvec_j7: ArrVecx2, 48, 1, 7 @ 5;
    c14_call_arrvec_j8: ArrVecx2, 48, 1, 8 @ 5;
);
