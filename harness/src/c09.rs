//! C09 — lifetime of the backing memory (partial: `load_mem` in the no-mmap
//! build; the borrow-checker half and real mappings are outside, see DESIGN.md).
//! (i) the region is released exactly once when the owner is dropped;
//! (ii) a failed load leaks nothing: the region obtained for the file is no
//!      longer allocated when `load_mem` returns `Err`;
//! (iii) probe programs that keep borrowed data past the owner through safe code.
use crate::cases::*;
use crate::env::*;
use crate::fsenv::*;
use crate::rt::Case;
use crate::sym::{self, any, assume};
use epserde::deser::{Deserialize, MemCase};
use epserde::prelude::*;
use epserde::ser::Serialize;

fn file_of<C: Case>() -> (C::T, std::path::PathBuf)
where
    C::T: Serialize,
{
    let x = C::make(0);
    let mut s = Sink::<64>::new();
    let n = match x.serialize(&mut s) { Ok(n) => n, Err(_) => { assert!(false, "HARNESS: serializes"); 0 } };
    (x, put_file(&s.buf, n))
}

/// (i) load, use, drop: the real drop glue runs under CBMC's free checks.
pub fn release_once<C: Case>()
where
    C::T: Serialize + Deserialize,
{
    let (x, path) = file_of::<C>();
    let r = <C::T>::load_mem(&path);
    match r {
        Ok(case) => {
            assert!(C::same_eps(&x, &*case), "C09: backing memory unchanged while the structure is in use");
            assert!(unsafe { N_ALLOC >= 1 && FREED == 0 }, "C09: backing memory stays allocated while the owner is alive");
            drop(case);
            assert!(unsafe { FREED } == 1, "C09: backing memory is released exactly once when its owner is dropped");
        }
        Err(e) => { core::mem::forget(e); assert!(false, "HARNESS: valid file loads"); }
    }
}

/// (ii) wrong type: file holds T, loaded as U.
pub fn fail_no_leak<C: Case, U: Deserialize>()
where
    C::T: Serialize,
{
    let (_x, path) = file_of::<C>();
    let r = U::load_mem(&path);
    let failed = r.is_err();
    match r { Ok(c) => { core::mem::forget(c); } Err(e) => { core::mem::forget(e); } }
    assert!(failed, "HARNESS: loading as a different type fails");
    unsafe {
        assert!(N_ALLOC >= 1 && !LAST_ALLOC.is_null(), "HARNESS: backing block captured");
        assert!(FREED == 1, "C09: a failed load must release the backing region exactly once (0 = leak, 2 = double free)");
    }
}

/// (ii) truncated / corrupt file of the right type.
pub fn corrupt_no_leak<C: Case, const CUT: usize, const FLIP: usize>()
where
    C::T: Serialize + Deserialize,
{
    let x = C::make(0);
    let mut s = Sink::<64>::new();
    let n = match x.serialize(&mut s) { Ok(n) => n, Err(_) => { assert!(false, "HARNESS: serializes"); 0 } };
    if FLIP < 64 { s.buf[FLIP] ^= 0xFF; }
    let path = put_file(&s.buf, if CUT < n { CUT } else { n });
    let r = <C::T>::load_mem(&path);
    let failed = r.is_err();
    match r { Ok(c) => { core::mem::forget(c); } Err(e) => { core::mem::forget(e); } }
    assert!(failed, "HARNESS: corrupt file is refused");
    unsafe {
        assert!(FREED == 1, "C09: a failed load must release the backing region exactly once (0 = leak, 2 = double free)");
    }
}

crate::fs_harness!(c09_release_u32 @ 13 => { release_once::<U32>() });
crate::fs_harness!(c09_release_tup2 @ 13 => { release_once::<Tup2>() });
crate::fs_harness!(c09_release_arr @ 13 => { release_once::<ArrU32x1>() });
crate::fs_harness!(c09_fail_wrong_type @ 13 => { fail_no_leak::<U32, u16>() });
crate::fs_harness!(c09_fail_wrong_type_zero @ 13 => { fail_no_leak::<Tup2, [u16; 2]>() });
crate::fs_harness!(c09_fail_truncated @ 13 => { corrupt_no_leak::<U32, 20, 64>() });
crate::fs_harness!(c09_fail_bad_magic @ 13 => { corrupt_no_leak::<U32, 64, 3>() });
crate::fs_harness!(c09_fail_bad_tag @ 20 => { corrupt_no_leak::<E2C, 64, 53>() });

/// (ii) I/O failure while reading the file (the file ends before the length its
/// metadata reported): `load_mem` fails, frees the block exactly once.
crate::fs_harness!(c09_fail_read_io @ 5 => {
    let (_x, path) = file_of::<U32>();
    #[cfg(kani)]
    unsafe { FILE_FAIL_READ = true; *core::ptr::addr_of_mut!(SPARE_ERROR) = Some(anyhow::Error::msg("prepared")); }
    let r = <u32>::load_mem(&path);
    let failed = r.is_err();
    match r { Ok(c) => { core::mem::forget(c); } Err(e) => { core::mem::forget(e); } }
    #[cfg(kani)]
    unsafe {
        assert!(failed, "C09: an unreadable file is refused");
        assert!(FREED == 1, "C09: a failed load must release the backing region exactly once (0 = leak, 2 = double free)");
    }
});
crate::fs_harness_r!(crate::fsenv::read_ok_stub; c09_fail_read_error @ 5 => {
    let (_x, path) = file_of::<U32>();
    #[cfg(kani)]
    unsafe { FILE_OVER = 5; }
    let r = <u32>::load_mem(&path);
    let failed = r.is_err();
    match r { Ok(c) => { core::mem::forget(c); } Err(e) => { core::mem::forget(e); } }
    #[cfg(kani)]
    unsafe {
        assert!(failed, "C09: a file that ends early is refused");
        assert!(FREED == 1, "C09: a failed load must release the backing region exactly once (0 = leak, 2 = double free)");
    }
});

/// (iii) probe: a reference copied out through Deref outlives the case.
crate::fs_harness!(c09_escape_deref @ 13 => {
    let x: [u8; 2] = any();
    let mut s = Sink::<64>::new();
    let n = x.serialize(&mut s).unwrap();
    let path = put_file(&s.buf, n);
    match <[u8; 2]>::load_mem(&path) {
        Ok(case) => {
            let esc: &'static [u8; 2] = *case;
            assert!(esc[0] == x[0], "C09: data readable while the owner is alive");
            drop(case);
            // safe code reads through the escaped reference after the owner is gone
            assert!(esc[1] == x[1], "C09: data obtained through safe code outlived the backing memory");
        }
        Err(e) => { core::mem::forget(e); assert!(false, "HARNESS: valid file loads"); }
    }
});
/// (iii) probe: the same through AsRef.
crate::fs_harness!(c09_escape_asref @ 13 => {
    let x: (u16, u16) = (any(), any());
    let mut s = Sink::<64>::new();
    let n = x.serialize(&mut s).unwrap();
    let path = put_file(&s.buf, n);
    match <(u16, u16)>::load_mem(&path) {
        Ok(case) => {
            let esc: &'static (u16, u16) = *case.as_ref();
            drop(case);
            assert!(esc.1 == x.1, "C09: data obtained through safe code outlived the backing memory");
        }
        Err(e) => { core::mem::forget(e); assert!(false, "HARNESS: valid file loads"); }
    }
});
/// (iii) accept side: scoped use is fine (borrow ends before the owner is dropped).
crate::fs_harness!(c09_scoped_use @ 13 => {
    let x: [u8; 2] = any();
    let mut s = Sink::<64>::new();
    let n = x.serialize(&mut s).unwrap();
    let path = put_file(&s.buf, n);
    match <[u8; 2]>::load_mem(&path) {
        Ok(case) => {
            let copy: [u8; 2] = { let r: &[u8; 2] = &**case; *r };
            drop(case);
            assert!(copy == x, "C09: a copy taken while the owner was alive is the value");
        }
        Err(e) => { core::mem::forget(e); assert!(false, "HARNESS: valid file loads"); }
    }
});
/// ε-copy results borrow from the buffer: a borrowed slice used inside the buffer's scope.
#[cfg_attr(kani, kani::proof)] #[cfg_attr(kani, kani::unwind(6))]
pub fn c09_eps_scope() {
    let v = sym::vec_upto::<u16, 2>();
    let mut s = Sink::<32>::new();
    let n;
    { let mut w = epserde::ser::WriterWithPos::new(&mut s); epserde::ser::SerializeInner::_serialize_inner(&v, &mut w).unwrap(); n = epserde::ser::WriteWithPos::pos(&w); }
    let buf: Box<Al<32>> = Box::new(Al(s.buf));
    {
        let mut sl = epserde::deser::SliceWithPos::new(&buf.0[..n]);
        let e: &[u16] = <Vec<u16> as epserde::deser::DeserializeInner>::_deserialize_eps_inner(&mut sl).unwrap();
        assert!(eqs(e, &v), "C09: borrowed result readable while the buffer is alive");
    }
    drop(buf);
}

/// Reachability twin.
crate::fs_harness!(c09_twin_reach @ 13 => {
    let (x, path) = file_of::<U32>();
    let r = <u32>::load_mem(&path);
    match r {
        Ok(case) => {
            drop(case);
            assert!(unsafe { FREED } == 0, "TWIN: must be violated (memory is released on drop)");
        }
        Err(e) => { core::mem::forget(e); }
    }
});

/// Debug aid: the dealloc stub sees the release of a boxed 64-aligned block.
crate::fs_harness!(c09_dbg_box @ 8 => {
    let l = std::alloc::Layout::from_size_align(64, 64).unwrap();
    let v = unsafe { Vec::<maligned::A64>::from_raw_parts(std::alloc::alloc(l) as *mut maligned::A64, 1, 1) };
    let b = v.into_boxed_slice();
    assert!(unsafe { N_ALLOC == 1 && FREED == 0 }, "DBG: recorded");
    drop(b);
    assert!(unsafe { FREED } == 1, "DBG: release counted");
});

// ---- (iv) heap balance of a failed ε-copy deserialization --------------------------------
//
// "When loading fails nothing is leaked": every loader runs `deserialize_eps` over the
// backing region; the parts of a deep structure that were already built when a later part
// fails own heap memory (the skeleton vectors) and must be released before the error is
// returned.  The counters see every allocation and release between the reset and the check.
use epserde::deser::{DeserializeInner, SliceWithPos};
use epserde::ser::{SerializeInner, WriteWithPos, WriterWithPos};

/// `[[Some(a)], [Some(b), None]]` as `Vec<Vec<Option<u8>>>`; the stream is cut at byte `K`
/// (0 = not cut) and the byte at `TAGPOS` (0 = none) is replaced by an invalid tag.
pub fn eps_fail_balance<const K: usize, const TAGPOS: usize>() {
    let a: u8 = any();
    let b: u8 = any();
    let x: Vec<Vec<Option<u8>>> = vec![vec![Some(a)], vec![Some(b), None]];
    let mut s = Sink::<64>::new();
    let n;
    {
        let mut w = WriterWithPos::new(&mut s);
        let r = SerializeInner::_serialize_inner(&x, &mut w);
        assert!(r.is_ok(), "HARNESS: serialization succeeds");
        n = w.pos();
    }
    // 8 (outer length) + 8 + 2 (first inner vector) + 8 + 2 + 1 (second)
    assert!(n == 29, "HARNESS: stream layout as expected");
    let mut al = Al::<64>::zero();
    al.0 = s.buf;
    if TAGPOS != 0 {
        let t: u8 = any();
        assume(t >= 2);
        al.0[TAGPOS] = t;
    }
    let end = if K != 0 { K } else { n };
    let mut sl = SliceWithPos::new(&al.0[..end]);
    alloc_reset();
    let r = <Vec<Vec<Option<u8>>>>::_deserialize_eps_inner(&mut sl);
    let failed = r.is_err();
    drop(r);
    let (allocs, frees) = unsafe { (ALLOC_CALLS, FREE_CALLS) };
    assert!(failed, "HARNESS: the damaged stream is refused");
    crate::cover!(allocs >= 2, "the outer skeleton and the first inner vector were built before the failure");
    assert!(allocs == frees, "C09: a failed eps deserialization leaks the parts it had already built (allocations != releases)");
    #[cfg(kani)]
    core::mem::forget(x);
}
macro_rules! bal {
    ($($name:ident: $k:literal, $t:literal);* $(;)?) => {$(
        #[cfg_attr(kani, kani::proof)] #[cfg_attr(kani, kani::unwind(5))]
        #[cfg_attr(kani, kani::stub(std::alloc::alloc, crate::env::count_alloc_stub))]
        #[cfg_attr(kani, kani::stub(<std::alloc::Global as core::alloc::Allocator>::deallocate, crate::env::count_dealloc_stub))]
        pub fn $name() { eps_fail_balance::<$k, $t>() }
    )*};
}
bal!(
    // cut inside the length word of the second inner vector: the first one is complete
    c09_eps_balance_cut20: 20, 0;
    // invalid tag in the first element of the second inner vector
    c09_eps_balance_tag26: 0, 26;
    // invalid tag in the first inner vector: only the outer skeleton exists
    c09_eps_balance_tag16: 0, 16;
);
/// Reachability twin: the undamaged stream is accepted.
#[cfg_attr(kani, kani::proof)] #[cfg_attr(kani, kani::unwind(5))]
#[cfg_attr(kani, kani::stub(std::alloc::alloc, crate::env::count_alloc_stub))]
#[cfg_attr(kani, kani::stub(<std::alloc::Global as core::alloc::Allocator>::deallocate, crate::env::count_dealloc_stub))]
pub fn c09_eps_balance_twin() { eps_fail_balance::<0, 0>() }
