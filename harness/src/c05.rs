//! C05 — grammar corners of the derive macro beyond the universe rows:
//! every definition here is compiled by the Kani build on each run (compile
//! success is observed) and round-trips every value in both modes, with the
//! exact ε-copy type asserted at type level.
use crate::cases::eqs;
use crate::env::*;
use crate::sym::{self, any, assume, vec_upto};
use core::marker::PhantomData;
use epserde::deser::{DeserType, DeserializeInner, SliceWithPos};
use epserde::prelude::*;
use epserde::ser::{SerializeInner, WriteWithPos, WriterWithPos};

/// two replaced parameters, one of them with an inline bound
#[derive(Epserde, Debug, PartialEq, Eq, Clone)]
pub struct Two<A: PartialEq, B> { pub a: A, pub n: u8, pub b: B }
/// phantom-only parameter of a non-serializable type, defaulted
#[derive(Debug, PartialEq, Eq, Clone, Default, epserde::TypeInfo)]
pub struct NotSer;
#[derive(Epserde, Debug, PartialEq, Eq, Clone)]
pub struct Ph<D = NotSer> { pub a: u16, pub p: PhantomData<D> }
/// tuple struct with a replaced parameter
#[derive(Epserde, Debug, PartialEq, Eq, Clone)]
pub struct TupP<A>(pub u8, pub A);
/// where-clause on a phantom parameter, const parameter used in an array length
#[derive(Epserde, Debug, PartialEq, Eq, Clone)]
pub struct Wh<P, const N: usize> where P: Default { pub a: [u8; N], pub p: PhantomData<P> }
/// enum: generic with default, unit/tuple/struct variants, parameter only in some variants
#[derive(Epserde, Debug, PartialEq, Eq, Clone)]
pub enum Ge<A = Vec<u8>, B = u8> { N, T(B, A), S { b: B } }
/// enum whose tuple and struct variants hold fields that merely *mention* a parameter
/// (`Vec<B>`, `Option<B>`, `PhantomData<B>`): fully deserialized, type unchanged, while the
/// variant `T(A)` holds a replaced parameter (seeded change C05b: the tuple-variant loop of
/// the derive chose the ε-copy method for every field that mentions a parameter).
#[derive(Epserde, Debug, PartialEq, Eq, Clone)]
pub enum Gm<A, B> { N, V(Vec<B>, u8), O(Option<B>), P(PhantomData<B>), T(A), S { v: Vec<B>, k: u8 } }
/// nested derived types
#[derive(Epserde, Debug, PartialEq, Eq, Clone)]
pub struct Outer<A> { pub inner: TupP<u16>, pub a: A }

fn ser<T: SerializeInner>(x: &T) -> (Sink<64>, usize) {
    let mut s = Sink::<64>::new();
    let n;
    { let mut w = WriterWithPos::new(&mut s); let r = SerializeInner::_serialize_inner(x, &mut w); assert!(r.is_ok(), "C05: derived serializer succeeds"); n = w.pos(); }
    (s, n)
}
macro_rules! both_modes {
    ($x:ident : $t:ty, |$f:ident| $fullok:expr, |$e:ident : $et:ty| $epsok:expr) => {{
        let (s, n) = ser(&$x);
        let mut al = Al::<64>::zero();
        al.0 = s.buf;
        let mut sf = SliceWithPos::new(&al.0[..n]);
        match <$t>::_deserialize_full_inner(&mut sf) {
            Ok($f) => { assert!($fullok, "C05: derived full-copy round trip"); assert!(sf.pos == n, "C05: consumes exactly the stream"); }
            Err(e) => { core::mem::forget(e); assert!(false, "C05: derived full-copy deserializer succeeds"); }
        }
        let mut se = SliceWithPos::new(&al.0[..n]);
        match <$t>::_deserialize_eps_inner(&mut se) {
            Ok(e0) => { let $e: $et = e0; assert!($epsok, "C05: derived eps round trip under the substitution"); assert!(se.pos == n, "C05: consumes exactly the stream"); }
            Err(e) => { core::mem::forget(e); assert!(false, "C05: derived eps deserializer succeeds"); }
        }
    }};
}

#[cfg_attr(kani, kani::proof)] #[cfg_attr(kani, kani::unwind(6))] #[cfg_attr(kani, kani::stub(core::str::from_utf8, crate::env::from_utf8_stub))]
pub fn c05_two_params() {
    let x = Two::<Vec<u16>, Vec<u8>> { a: vec_upto::<u16, 2>(), n: any(), b: vec_upto::<u8, 2>() };
    both_modes!(x: Two<Vec<u16>, Vec<u8>>, |f| eqs(&f.a, &x.a) && f.n == x.n && eqs(&f.b, &x.b),
                |e: Two<&[u16], &[u8]>| eqs(e.a, &x.a) && e.n == x.n && eqs(e.b, &x.b));
}
#[cfg_attr(kani, kani::proof)] #[cfg_attr(kani, kani::unwind(6))] #[cfg_attr(kani, kani::stub(core::str::from_utf8, crate::env::from_utf8_stub))]
pub fn c05_phantom_default() {
    let x = Ph::<NotSer> { a: any(), p: PhantomData };
    both_modes!(x: Ph, |f| f == x, |e: Ph<NotSer>| e == x);
}
#[cfg_attr(kani, kani::proof)] #[cfg_attr(kani, kani::unwind(6))] #[cfg_attr(kani, kani::stub(core::str::from_utf8, crate::env::from_utf8_stub))]
pub fn c05_tuple_param() {
    let x = TupP::<Vec<u32>>(any(), vec_upto::<u32, 2>());
    both_modes!(x: TupP<Vec<u32>>, |f| f.0 == x.0 && eqs(&f.1, &x.1), |e: TupP<&[u32]>| e.0 == x.0 && eqs(e.1, &x.1));
}
#[cfg_attr(kani, kani::proof)] #[cfg_attr(kani, kani::unwind(6))] #[cfg_attr(kani, kani::stub(core::str::from_utf8, crate::env::from_utf8_stub))]
pub fn c05_where_const() {
    let x = Wh::<u8, 3> { a: any(), p: PhantomData };
    both_modes!(x: Wh<u8, 3>, |f| f.a[0] == x.a[0] && f.a[1] == x.a[1] && f.a[2] == x.a[2], |e: Wh<u8, 3>| e.a[0] == x.a[0] && e.a[1] == x.a[1] && e.a[2] == x.a[2]);
}
#[cfg_attr(kani, kani::proof)] #[cfg_attr(kani, kani::unwind(6))] #[cfg_attr(kani, kani::stub(core::str::from_utf8, crate::env::from_utf8_stub))]
pub fn c05_enum_defaults() {
    let t: u8 = any();
    assume(t < 3);
    let x: Ge = match t { 0 => Ge::N, 1 => Ge::T(any(), vec_upto::<u8, 2>()), _ => Ge::S { b: any() } };
    both_modes!(x: Ge, |f| match (&f, &x) { (Ge::N, Ge::N) => true, (Ge::T(b1, a1), Ge::T(b2, a2)) => b1 == b2 && eqs(a1, a2), (Ge::S { b: b1 }, Ge::S { b: b2 }) => b1 == b2, _ => false },
                |e: Ge<&[u8], u8>| match (&e, &x) { (Ge::N, Ge::N) => true, (Ge::T(b1, a1), Ge::T(b2, a2)) => b1 == b2 && eqs(a1, a2), (Ge::S { b: b1 }, Ge::S { b: b2 }) => b1 == b2, _ => false });
}
#[cfg_attr(kani, kani::proof)] #[cfg_attr(kani, kani::unwind(6))] #[cfg_attr(kani, kani::stub(core::str::from_utf8, crate::env::from_utf8_stub))]
pub fn c05_nested() {
    let x = Outer::<String> { inner: TupP(any(), any()), a: sym::string_w(2, 0) };
    both_modes!(x: Outer<String>, |f| f.inner == x.inner && crate::cases::eqstr(&f.a, &x.a), |e: Outer<&str>| e.inner == x.inner && crate::cases::eqstr(e.a, &x.a));
}
#[cfg_attr(kani, kani::proof)] #[cfg_attr(kani, kani::unwind(6))] #[cfg_attr(kani, kani::stub(core::str::from_utf8, crate::env::from_utf8_stub))]
pub fn c05_enum_mentions() {
    let t: u8 = any();
    assume(t < 6);
    let x: Gm<Vec<u16>, u8> = match t {
        0 => Gm::N,
        1 => Gm::V(vec_upto::<u8, 2>(), any()),
        2 => Gm::O(any()),
        3 => Gm::P(PhantomData),
        4 => Gm::T(vec_upto::<u16, 2>()),
        _ => Gm::S { v: vec_upto::<u8, 2>(), k: any() },
    };
    both_modes!(x: Gm<Vec<u16>, u8>,
                |f| match (&f, &x) { (Gm::N, Gm::N) => true, (Gm::V(v1, k1), Gm::V(v2, k2)) => eqs(v1, v2) && k1 == k2, (Gm::O(a), Gm::O(b)) => a == b, (Gm::P(_), Gm::P(_)) => true,
                                     (Gm::T(a), Gm::T(b)) => eqs(a, b), (Gm::S { v: v1, k: k1 }, Gm::S { v: v2, k: k2 }) => eqs(v1, v2) && k1 == k2, _ => false },
                |e: Gm<&[u16], u8>| match (&e, &x) { (Gm::N, Gm::N) => true, (Gm::V(v1, k1), Gm::V(v2, k2)) => eqs(v1, v2) && k1 == k2, (Gm::O(a), Gm::O(b)) => a == b, (Gm::P(_), Gm::P(_)) => true,
                                     (Gm::T(a), Gm::T(b)) => eqs(a, b), (Gm::S { v: v1, k: k1 }, Gm::S { v: v2, k: k2 }) => eqs(v1, v2) && k1 == k2, _ => false });
}
