//! Machinery self-test (not a property check): harnesses with known verdicts
//! used by `bin/check SELFTEST` to exercise the violation/replay/inconclusive paths.
use crate::sym::{any, assume};

/// Fails for exactly one input pair; the counterexample must replay natively.
#[cfg_attr(kani, kani::proof)]
pub fn st_fail_assert() {
    let v: usize = any();
    let b: [u8; 2] = any();
    let p = epserde::pad_align_to(v, 8);
    assert!(!(p == 5 && b[0] == 7 && b[1] == 9), "SELFTEST: violated for v%8==3, b=[7,9]");
}

/// Unwinding bound too small: must be reported as inconclusive, never pass/fail.
#[cfg_attr(kani, kani::proof)]
#[cfg_attr(kani, kani::unwind(2))]
pub fn st_unwind_small() {
    let n: usize = any();
    assume(n <= 5);
    let mut s = 0usize;
    let mut i = 0;
    while i < n {
        s += i;
        i += 1;
    }
    assert!(s <= 10);
}

/// Vacuous: the cover can never be satisfied; must be reported as inconclusive.
#[cfg_attr(kani, kani::proof)]
pub fn st_vacuous_cover() {
    let v: u8 = any();
    assume(v > 10);
    crate::cover!(v == 3, "unreachable witness");
    assert!(v > 5);
}

/// Reads one byte past a buffer through a raw pointer: CBMC pointer check, Miri replay.
#[cfg_attr(kani, kani::proof)]
pub fn st_oob_read() {
    let b: [u8; 4] = any();
    let i: usize = any();
    assume(i <= 4);
    let x = unsafe { *b.as_ptr().add(i) };
    assert!(x == x);
}

// ---- debugging variants (temporary) ----
use crate::env::*;
use epserde::deser::{Deserialize, Error as DE};
use epserde::ser::Serialize;
#[cfg_attr(kani, kani::proof)] #[cfg_attr(kani, kani::unwind(50))]
#[cfg_attr(kani, kani::stub(core::str::from_utf8, crate::env::from_utf8_stub))]
pub fn dbg_v2() {
    let x: u32 = any();
    let mut s = Sink::<64>::new();
    let _n = x.serialize(&mut s).unwrap();
    let mut al = Al::<64>::zero();
    al.0 = s.buf;
    let mut rd = Exact::new(&al.0[..0]);
    let r = <u32>::deserialize_full(&mut rd);
    let ok = r.is_ok();
    core::mem::forget(r);
    assert!(!ok);
}
#[cfg_attr(kani, kani::proof)] #[cfg_attr(kani, kani::unwind(50))]
#[cfg_attr(kani, kani::stub(core::str::from_utf8, crate::env::from_utf8_stub))]
pub fn dbg_v3() {
    let x: u32 = any();
    let mut s = Sink::<64>::new();
    let _n = x.serialize(&mut s).unwrap();
    let mut al = Al::<64>::zero();
    al.0 = s.buf;
    let mut rd = Exact::new(&al.0[..20]);
    let r = <u32>::deserialize_full(&mut rd);
    let ok = r.is_ok();
    core::mem::forget(r);
    assert!(!ok);
}
#[cfg_attr(kani, kani::proof)] #[cfg_attr(kani, kani::unwind(50))]
#[cfg_attr(kani, kani::stub(core::str::from_utf8, crate::env::from_utf8_stub))]
pub fn dbg_v4() {
    // no serialization at all: an all-zero 8-byte prefix
    let al = Al::<64>::zero();
    let mut rd = Exact::new(&al.0[..4]);
    let r = <u32>::deserialize_full(&mut rd);
    let ok = r.is_ok();
    core::mem::forget(r);
    assert!(!ok);
}
macro_rules! dbgv {
    ($name:ident, $x:expr, $unwrap:expr, $useal:expr, $cut:expr) => {
        #[cfg_attr(kani, kani::proof)] #[cfg_attr(kani, kani::unwind(50))]
        #[cfg_attr(kani, kani::stub(core::str::from_utf8, crate::env::from_utf8_stub))]
        pub fn $name() {
            let x: u32 = $x;
            let mut s = Sink::<64>::new();
            if $unwrap { let _n = x.serialize(&mut s).unwrap(); } else { match x.serialize(&mut s) { Ok(_) => {}, Err(_) => { assert!(false); } } }
            let mut al = Al::<64>::zero();
            al.0 = s.buf;
            let data: &[u8] = if $useal { &al.0[..$cut] } else { &s.buf[..$cut] };
            let mut rd = Exact::new(data);
            let r = <u32>::deserialize_full(&mut rd);
            let ok = r.is_ok();
            core::mem::forget(r);
            assert!(ok == ($cut >= 44));
        }
    };
}
dbgv!(dbg_v5, any(), false, true, 20);
dbgv!(dbg_v6, any(), true, false, 20);
dbgv!(dbg_v7, 0xdeadbeef, true, true, 20);
dbgv!(dbg_v8, any(), true, true, 44);
dbgv!(dbg_v9, any(), true, true, 43);
#[cfg_attr(kani, kani::proof)] #[cfg_attr(kani, kani::unwind(50))]
#[cfg_attr(kani, kani::stub(core::str::from_utf8, crate::env::from_utf8_stub))]
pub fn dbg_v10() {
    let x: u32 = any();
    let mut s = Sink::<64>::new();
    match x.serialize(&mut s) { Ok(_) => {}, Err(_) => { assert!(false); } }
    let z = Al::<64>::zero();
    let mut rd = Exact::new(&z.0[..20]);
    let r = <u32>::deserialize_full(&mut rd);
    let ok = r.is_ok();
    core::mem::forget(r);
    assert!(!ok);
}
#[cfg_attr(kani, kani::proof)] #[cfg_attr(kani, kani::unwind(50))]
#[cfg_attr(kani, kani::stub(core::str::from_utf8, crate::env::from_utf8_stub))]
pub fn dbg_v11() {
    let z = Al::<64>::zero();
    let mut rd = Exact::new(&z.0[..20]);
    let r = <u32>::deserialize_full(&mut rd);
    let ok = r.is_ok();
    core::mem::forget(r);
    assert!(!ok);
    let x: u32 = any();
    let mut s = Sink::<64>::new();
    match x.serialize(&mut s) { Ok(_) => {}, Err(_) => { assert!(false); } }
}
#[cfg_attr(kani, kani::proof)] #[cfg_attr(kani, kani::unwind(50))]
#[cfg_attr(kani, kani::stub(core::str::from_utf8, crate::env::from_utf8_stub))]
pub fn dbg_v12() {
    // valid magic etc. from constants, no serializer: fails at the type-hash read
    let mut z = Al::<64>::zero();
    z.0[..8].copy_from_slice(b"epserde ");
    z.0[8] = 1; z.0[10] = 1; z.0[12] = 8;
    let mut rd = Exact::new(&z.0[..20]);
    let r = <u32>::deserialize_full(&mut rd);
    let ok = r.is_ok();
    core::mem::forget(r);
    assert!(!ok);
}

macro_rules! dbgc { ($($name:ident : $cut:literal),*) => {$(
    #[cfg_attr(kani, kani::proof)] #[cfg_attr(kani, kani::unwind(50))]
    #[cfg_attr(kani, kani::stub(core::str::from_utf8, crate::env::from_utf8_stub))]
    pub fn $name() {
        let mut z = Al::<64>::zero();
        z.0[..8].copy_from_slice(b"epserde ");
        z.0[8] = 1; z.0[10] = 1; z.0[12] = 8;
        let mut rd = Exact::new(&z.0[..$cut]);
        let r = <u32>::deserialize_full(&mut rd);
        let ok = r.is_ok();
        core::mem::forget(r);
        assert!(!ok);
    }
)*}; }
dbgc!(dbg_c0: 0, dbg_c4: 4, dbg_c8: 8, dbg_c9: 9, dbg_c11: 11, dbg_c12: 12, dbg_c13: 13, dbg_c20: 20, dbg_c21: 21, dbg_c28: 28, dbg_c29: 29, dbg_c36: 36, dbg_c37: 37, dbg_c40: 40);
#[cfg_attr(kani, kani::proof)] #[cfg_attr(kani, kani::unwind(50))]
#[cfg_attr(kani, kani::stub(core::str::from_utf8, crate::env::from_utf8_stub))]
pub fn dbg_io_symk() {
    let x: u32 = any();
    let mut s = Sink::<64>::new();
    let n = match x.serialize(&mut s) { Ok(n) => n, Err(_) => { assert!(false); 0 } };
    let k: usize = any();
    assume(k < n);
    let mut rd: &[u8] = &s.buf[..k];
    let r = <u32>::deserialize_full(&mut rd);
    let ok = r.is_ok();
    core::mem::forget(r);
    assert!(!ok);
}
#[cfg_attr(kani, kani::proof)] #[cfg_attr(kani, kani::unwind(50))]
#[cfg_attr(kani, kani::stub(core::str::from_utf8, crate::env::from_utf8_stub))]
pub fn dbg_swp_symk() {
    let x: u32 = any();
    let mut s = Sink::<64>::new();
    let n = match x.serialize(&mut s) { Ok(n) => n, Err(_) => { assert!(false); 0 } };
    let k: usize = any();
    assume(k < n);
    let mut rd = epserde::deser::SliceWithPos::new(&s.buf[..k]);
    let r = <u32>::deserialize_full(&mut rd);
    let ok = r.is_ok();
    core::mem::forget(r);
    assert!(!ok);
}
#[cfg_attr(kani, kani::proof)] #[cfg_attr(kani, kani::unwind(50))]
#[cfg_attr(kani, kani::stub(core::str::from_utf8, crate::env::from_utf8_stub))]
pub fn dbg_io_k8() {
    let x: u32 = any();
    let mut s = Sink::<64>::new();
    let _n = match x.serialize(&mut s) { Ok(n) => n, Err(_) => { assert!(false); 0 } };
    let mut rd: &[u8] = &s.buf[..8];
    let r = <u32>::deserialize_full(&mut rd);
    let ok = r.is_ok();
    core::mem::forget(r);
    assert!(!ok);
}
fn marker_loop(n: usize) -> usize { let mut s = 0; let mut i = 0; while i < n { s += i; i += 1; } s }
macro_rules! dbgt { ($($name:ident : $cut:literal),*) => {$(
    #[cfg_attr(kani, kani::proof)] #[cfg_attr(kani, kani::unwind(20))]
    pub fn $name() {
        use epserde::deser::DeserializeInner;
        let z = Al::<64>::zero();
        let mut rd = Exact::new(&z.0[..$cut]);
        let mut rp = epserde::deser::ReaderWithPos::new(&mut rd);
        let r = u64::_deserialize_full_inner(&mut rp);
        if r.is_ok() { let m = marker_loop(10); assert!(m == 45); }
        core::mem::forget(r);
    }
)*}; }
dbgt!(dbg_t0: 0, dbg_t4: 4, dbg_t7: 7);
