//! Machinery self-test (not a property check): harnesses with known verdicts
//! used by `bin/check SELFTEST` to exercise the violation/replay/inconclusive paths.
use crate::sym::{any, assume};

/// Fails for exactly one input pair; the counterexample must replay natively.
#[cfg_attr(kani, kani::proof)]
pub fn st_fail_assert() {
    let v: usize = any();
    let b: [u8; 2] = any();
    let p = epserde::pad_align_to(v, 8);
    assert!(!(p == 5 && b[0] == 7 && b[1] == 9), "SELFTEST: violated for v%8==3, b=[7,9]");
}

/// Unwinding bound too small: must be reported as inconclusive, never pass/fail.
#[cfg_attr(kani, kani::proof)]
#[cfg_attr(kani, kani::unwind(2))]
pub fn st_unwind_small() {
    let n: usize = any();
    assume(n <= 5);
    let mut s = 0usize;
    let mut i = 0;
    while i < n {
        s += i;
        i += 1;
    }
    assert!(s <= 10);
}

/// Vacuous: the cover can never be satisfied; must be reported as inconclusive.
#[cfg_attr(kani, kani::proof)]
pub fn st_vacuous_cover() {
    let v: u8 = any();
    assume(v > 10);
    crate::cover!(v == 3, "unreachable witness");
    assert!(v > 5);
}

/// Reads one byte past a buffer through a raw pointer: CBMC pointer check, Miri replay.
#[cfg_attr(kani, kani::proof)]
pub fn st_oob_read() {
    let b: [u8; 4] = any();
    let i: usize = any();
    assume(i <= 4);
    let x = unsafe { *b.as_ptr().add(i) };
    assert!(x == x);
}

/// A harness whose `cover!` witnesses are satisfied *and* whose assertion fails:
/// Kani's concrete playback prints one unit test per satisfied cover and one per
/// failed check; the driver must replay the latter (an earlier version took the
/// first test, i.e. a cover witness, and reported "did not reproduce").
#[cfg_attr(kani, kani::proof)]
pub fn st_cover_then_fail() {
    let a: u8 = any();
    let b: u8 = any();
    crate::cover!(a == 7, "witness one");
    crate::cover!(a == 9 && b == 1, "witness two");
    assert!(!(a == 200 && b == 100), "SELFTEST: violated for a=200, b=100 only");
}
