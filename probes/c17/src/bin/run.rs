fn main() {
    #[cfg(any(feature = "p_deep_field", feature = "p_ref_field", feature = "p_vec_field", feature = "p_string_field",
              feature = "p_boxslice_field", feature = "p_no_repr_c", feature = "p_repr_align_only", feature = "p_repr_packed_only", feature = "p_repr_packed2_only", feature = "p_both_attrs", feature = "p_nested_bad", feature = "ok_control",
              feature = "p_enum_deep_before_tuple", feature = "p_enum_deep_last", feature = "p_enum_deep_struct_variant"))]
    c17probe::probe();
}
