fn main() {
    #[cfg(any(feature = "p_deep_field", feature = "p_ref_field", feature = "p_vec_field", feature = "p_string_field",
              feature = "p_boxslice_field", feature = "p_no_repr_c", feature = "p_both_attrs", feature = "p_nested_bad", feature = "ok_control"))]
    c17probe::probe();
}
