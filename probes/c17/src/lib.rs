//! C17 compile-time layer: each feature enables ONE definition obtained from a
//! valid zero-copy struct by one wrong declaration.  Expected outcome A: rustc
//! rejects the crate (trait-bound error on `ZeroCopy`, or the derive's panic).
//! If a probe does compile (outcome B), its harness must show that
//! serialization panics before any byte reaches the writer.
#![allow(dead_code)]
use epserde::prelude::*;
use epserde::ser::{SerializeInner, WriteNoStd, WriterWithPos};

pub struct Tripwire;
impl WriteNoStd for Tripwire {
    fn write_all(&mut self, _b: &[u8]) -> epserde::ser::Result<()> {
        assert!(false, "TRIPWIRE: a byte of the value reached the writer");
        Ok(())
    }
    fn flush(&mut self) -> epserde::ser::Result<()> { Ok(()) }
}

fn drive<T: SerializeInner>(x: &T) {
    let mut t = Tripwire;
    let mut w = WriterWithPos::new(&mut t);
    let _ = SerializeInner::_serialize_inner(x, &mut w);
    assert!(false, "C17: REACHED-END serialization of a wrongly declared zero-copy type returned");
}

/// A deep-copy struct that is nevertheless `Copy`.
#[derive(Epserde, Clone, Copy, Debug)]
#[deep_copy]
pub struct DeepButCopy { pub a: u32 }

#[cfg(feature = "p_deep_field")]
pub mod p {
    use super::*;
    #[derive(Epserde, Clone, Copy)]
    #[repr(C)]
    #[zero_copy]
    pub struct P { pub a: u32, pub d: DeepButCopy }
    pub fn run() { drive(&P { a: 1, d: DeepButCopy { a: 2 } }) }
}
#[cfg(feature = "p_ref_field")]
pub mod p {
    use super::*;
    static DATA: [u8; 2] = [1, 2];
    #[derive(Epserde, Clone, Copy)]
    #[repr(C)]
    #[zero_copy]
    pub struct P { pub a: u32, pub r: &'static [u8] }
    pub fn run() { drive(&P { a: 1, r: &DATA }) }
}
#[cfg(feature = "p_vec_field")]
pub mod p {
    use super::*;
    #[derive(Epserde, Clone)]
    #[repr(C)]
    #[zero_copy]
    pub struct P { pub a: u32, pub v: Vec<u8> }
    pub fn run() { drive(&P { a: 1, v: vec![1] }) }
}
#[cfg(feature = "p_string_field")]
pub mod p {
    use super::*;
    #[derive(Epserde, Clone)]
    #[repr(C)]
    #[zero_copy]
    pub struct P { pub a: u32, pub s: String }
    pub fn run() { drive(&P { a: 1, s: String::new() }) }
}
#[cfg(feature = "p_boxslice_field")]
pub mod p {
    use super::*;
    #[derive(Epserde, Clone)]
    #[repr(C)]
    #[zero_copy]
    pub struct P { pub a: u32, pub b: Box<[u16]> }
    pub fn run() { drive(&P { a: 1, b: vec![1u16].into_boxed_slice() }) }
}
#[cfg(feature = "p_no_repr_c")]
pub mod p {
    use super::*;
    #[derive(Epserde, Clone, Copy)]
    #[zero_copy]
    pub struct P { pub a: u32, pub b: u8 }
    pub fn run() { drive(&P { a: 1, b: 2 }) }
}
// `repr` hints that are not `C`: the layout stays the default Rust one, so the fields may be
// reordered (seeded change C17c took a repr made only of align/packed modifiers for repr(C))
#[cfg(feature = "p_repr_align_only")]
pub mod p {
    use super::*;
    #[derive(Epserde, Clone, Copy)]
    #[repr(align(8))]
    #[zero_copy]
    pub struct P { pub a: u8, pub b: u64, pub c: u8 }
    pub fn run() { drive(&P { a: 1, b: 2, c: 3 }) }
}
#[cfg(feature = "p_repr_packed_only")]
pub mod p {
    use super::*;
    #[derive(Epserde, Clone, Copy)]
    #[repr(packed)]
    #[zero_copy]
    pub struct P { pub a: u8, pub b: u64, pub c: u8 }
    pub fn run() { drive(&P { a: 1, b: 2, c: 3 }) }
}
#[cfg(feature = "p_repr_packed2_only")]
pub mod p {
    use super::*;
    #[derive(Epserde, Clone, Copy)]
    #[repr(packed(2))]
    #[zero_copy]
    pub struct P { pub a: u8, pub b: u64, pub c: u8 }
    pub fn run() { drive(&P { a: 1, b: 2, c: 3 }) }
}
#[cfg(feature = "p_both_attrs")]
pub mod p {
    use super::*;
    #[derive(Epserde, Clone, Copy)]
    #[repr(C)]
    #[zero_copy]
    #[deep_copy]
    pub struct P { pub a: u32, pub b: u8 }
    pub fn run() { drive(&P { a: 1, b: 2 }) }
}
#[cfg(feature = "p_nested_bad")]
pub mod p {
    use super::*;
    // a vector of a struct that is declared zero-copy but holds a deep field
    #[derive(Epserde, Clone, Copy)]
    #[repr(C)]
    #[zero_copy]
    pub struct Inner { pub a: u32, pub d: DeepButCopy }
    pub fn run() { drive(&vec![Inner { a: 1, d: DeepButCopy { a: 2 } }]) }
}
// zero-copy enums: the bad field sits in different variant positions
impl MaxSizeOf for DeepButCopy { fn max_size_of() -> usize { 4 } }
#[cfg(feature = "p_enum_deep_before_tuple")]
pub mod p {
    use super::*;
    #[derive(Epserde, Clone, Copy)]
    #[repr(C)]
    #[zero_copy]
    pub enum P { A, B(DeepButCopy), C(u64) }
    pub fn run() { drive(&P::B(DeepButCopy { a: 2 })) }
}
#[cfg(feature = "p_enum_deep_last")]
pub mod p {
    use super::*;
    #[derive(Epserde, Clone, Copy)]
    #[repr(C)]
    #[zero_copy]
    pub enum P { A, C(u64), B(DeepButCopy) }
    pub fn run() { drive(&P::B(DeepButCopy { a: 2 })) }
}
#[cfg(feature = "p_enum_deep_struct_variant")]
pub mod p {
    use super::*;
    #[derive(Epserde, Clone, Copy)]
    #[repr(C)]
    #[zero_copy]
    pub enum P { A, B { d: DeepButCopy }, C(u64), D { x: u8 } }
    pub fn run() { drive(&P::B { d: DeepButCopy { a: 2 } }) }
}
/// Control: a *valid* zero-copy definition must compile and reach the writer
/// (so that "rejected" is not simply "nothing compiles").
#[cfg(feature = "ok_control")]
pub mod p {
    use super::*;
    #[derive(Epserde, Clone, Copy)]
    #[repr(C)]
    #[zero_copy]
    pub struct P { pub a: u32, pub b: u8 }
    pub fn run() { drive(&P { a: 1, b: 2 }) }
}

#[cfg(any(feature = "p_deep_field", feature = "p_ref_field", feature = "p_vec_field", feature = "p_string_field",
          feature = "p_boxslice_field", feature = "p_no_repr_c", feature = "p_repr_align_only", feature = "p_repr_packed_only", feature = "p_repr_packed2_only", feature = "p_both_attrs", feature = "p_nested_bad", feature = "ok_control",
          feature = "p_enum_deep_before_tuple", feature = "p_enum_deep_last", feature = "p_enum_deep_struct_variant"))]
#[cfg_attr(kani, kani::proof)]
#[cfg_attr(kani, kani::unwind(5))]
pub fn probe() { p::run() }
